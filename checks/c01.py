"""C01 - decoding any byte string is total, deterministic and consistent across consumers.

spec/isa/SC62015Format.tla (+ SC62015Table.tla)  reference instruction format (MCFormat.tla: model-level checks
                                                  over the complete structural space)
spec/isa/JudgeDecode.tla                          TLC judges every recorded decode attempt of the four consumers
"""
from __future__ import annotations

import json
import random
import sys
from pathlib import Path
from typing import Any, Dict, List

import vlib
from vlib import CheckRun, MachineryError, SPEC, run_tlc, tlc_expect_ok

LEVEL = "model_checking"
SD = SPEC / "isa"
PRE_BYTES = [0x21, 0x22, 0x23, 0x24, 0x25, 0x26, 0x27, 0x30, 0x31, 0x32, 0x33, 0x34, 0x35, 0x36, 0x37]
# second-byte representatives: every register-selector / mode-nibble class, reg-pair spare bits, memory-indirect modes
B2_CLASSES = sorted({0x00, 0x01, 0x03, 0x04, 0x05, 0x07, 0x08, 0x0C, 0x0F, 0x14, 0x24, 0x27, 0x34, 0x36, 0x44, 0x56, 0x70, 0x77,
                     0x80, 0x84, 0x87, 0x8C, 0x94, 0xA5, 0xC0, 0xC4, 0xC6, 0xCF, 0xE4, 0xF7, 0xFF, 0x20, 0x21, 0x32, 0xBF})


def base_strings(tier: str, seed: int) -> List[bytes]:
    rnd = random.Random(seed)
    out: List[bytes] = []

    def fill():
        m = rnd.random()
        if m < 0.3:
            return bytes(5)
        if m < 0.4:
            return bytes([0xFF] * 5)
        return bytes(rnd.randrange(256) for _ in range(5))

    # operand extremes: every opcode (bare and behind two prefixes) with operand bytes that form the largest / smallest
    # addresses, displacements and immediates (top of the external space, its last bytes, the ignored upper bits set)
    extremes = [bytes([0xFF] * 6), bytes([0xFE, 0xFF, 0x0F, 0xFF, 0xFF, 0xFF]), bytes([0xFF, 0xFF, 0x0F, 0x00, 0x00, 0x00]), bytes([0xFD, 0xFF, 0x0F, 0xFE, 0xFF, 0x0F]),
                bytes(6), bytes([0x00, 0x00, 0x10, 0x00, 0x00, 0x10]), bytes([0xFF, 0xFF, 0xFF, 0x0F, 0xFF, 0xFF]), bytes([0x04, 0xFE, 0xFF, 0x0F, 0xFF, 0xFF]),
                bytes([0x84, 0xFF, 0xFE, 0xFF, 0x0F, 0xFF]), bytes([0x00, 0xFE, 0xFF, 0x0F, 0x00, 0x00])]
    for pre in (None, 0x32, 0x25):
        for op in range(256):
            for x in extremes:
                out.append(((bytes([op]) if pre is None else bytes([pre, op])) + x)[:7])
    if tier == "quick":
        for op in range(256):
            for b2 in range(256):
                out.append(bytes([op, b2]) + fill())
        for pre in PRE_BYTES:
            for op in range(256):
                for b2 in B2_CLASSES:
                    out.append((bytes([pre, op, b2]) + fill())[:7])
    else:
        for pre in [None] + PRE_BYTES:
            for op in range(256):
                for b2 in range(256):
                    s = (bytes([op, b2]) if pre is None else bytes([pre, op, b2])) + fill()
                    out.append(s[:7])
    return out


FOLLOW_BASES = [bytes([0x00]), bytes([0x08, 0x12]), bytes([0x90, 0x04]), bytes([0x32, 0x80, 0x10]), bytes([0x98, 0x00, 0x10]),
                bytes([0xE3, 0x24, 0x10]), bytes([0x30, 0xB0, 0x25]), bytes([0x04, 0x34, 0x12])]


def follower_items(tier: str):
    """(base, chunk of followers): every two-byte instruction head (opcode x second byte, zero fill) after a few valid bases of
    different shapes - whatever the look-ahead of the decoder does with the NEXT instruction must not change this one"""
    bases = FOLLOW_BASES[:3] if tier == "quick" else FOLLOW_BASES
    fws = [bytes([op, b2, 0, 0, 0]) for op in range(256) for b2 in range(256)]
    if tier != "quick":
        fws += [bytes([pre, op, b2, 0, 0]) for pre in (0x30, 0x25) for op in range(256) for b2 in B2_CLASSES]
    out = []
    for b in bases:
        for i in range(0, len(fws), 64):
            out.append((b + bytes(7 - len(b)), fws[i:i + 64], len(b)))
    return out


def _job(arg):
    shard_id, items, tier, seed = arg
    if tier.startswith("follow:"):
        return _follow_job(shard_id, items)
    return _base_job(arg)


def _follow_job(shard_id, items):
    sys.path.insert(0, str(vlib.VERIF / "harness" / "py"))
    vlib.setup_repo_imports()
    import decode_harness as dh
    recs = []
    for (rid, (b, fws, blen)) in items:
        recs.append(dh.observe_followers(b[:blen], rid, 0x1000, fws))
    d = vlib.scratch("C01")
    tf = d / f"follow-{shard_id}.ndjson"
    vlib.write_ndjson(tf, [{k: v for k, v in r.items() if k != "fw"} for r in recs])
    res = run_tlc(SD, "JudgeDecode", "JudgeDecode.cfg", workers=1, env={"TRACE_FILE": str(tf)}, tag=f"C01-follow-{shard_id}", jvm=["-Xss128m"], heap="3g", timeout=3000)
    verdict = None
    for v in res.printed():
        if isinstance(v, tuple) and v and v[0] == "JUDGE":
            verdict = v
    if verdict is None:
        raise MachineryError(f"JudgeDecode did not complete (follower shard {shard_id}):\n{res.out[-2000:]}")
    tf.unlink()
    byid = {r["id"]: r for r in recs}
    bad = [(int(x[0]), int(x[1]), str(x[2]), byid[int(x[0])]) for x in verdict[2]]
    nrows = sum(len(r["o"]) for r in recs)
    return len(recs), nrows, len(recs), bad[:3000], len(bad), [], 0


def _base_job(arg):
    shard_id, items, tier, seed = arg
    sys.path.insert(0, str(vlib.VERIF / "harness" / "py"))
    vlib.setup_repo_imports()
    import decode_harness as dh
    rnd = random.Random(seed * 1000 + shard_id)
    recs = []
    for (rid, b) in items:
        addr = 0x1000 if rid % 2 == 0 else 0x2FFFE
        hist = random.Random(rid) if rid % 8 == 0 else None
        trunc = (rid % 4 == 0) if tier == "thorough" else (rid % 3 == 0)
        recs.append(dh.observe(b, rid, addr, True, trunc, hist))
    d = vlib.scratch("C01")
    tf = d / f"obs-{shard_id}.ndjson"
    vlib.write_ndjson(tf, recs)
    res = run_tlc(SD, "JudgeDecode", "JudgeDecode.cfg", workers=1, env={"TRACE_FILE": str(tf)}, tag=f"C01-judge-{shard_id}", jvm=["-Xss128m"], heap="3g", timeout=3000)
    verdict = None
    for v in res.printed():
        if isinstance(v, tuple) and v and v[0] == "JUDGE":
            verdict = v
    if verdict is None:
        raise MachineryError(f"JudgeDecode did not complete (shard {shard_id}):\n{res.out[-2000:]}")
    tf.unlink()
    byid = {r["id"]: r for r in recs}
    bad = [(int(x[0]), int(x[1]), str(x[2]), byid[int(x[0])]) for x in verdict[2]]
    drift = [(int(x[0]), int(x[1]), str(x[2]), byid[int(x[0])]["b"]) for x in list(verdict[3])[:200]]
    nrows = sum(len(r["o"]) for r in recs)
    accepted = sum(1 for r in recs if r["o"][0][2] == 1)
    return len(recs), nrows, accepted, bad[:3000], len(bad), drift, len(verdict[3])


def run(cr: CheckRun) -> None:
    vlib.setup_repo_imports()
    quick = cr.tier == "quick"
    # 1. model-level: the reference format over the complete structural space (2M states, ~1-4 min)
    res = run_tlc(SD, "MCFormat", "MCFormat_quick.cfg" if quick else "MCFormat.cfg", workers=vlib.NCPU, tag="C01-MCFormat", timeout=3400, heap="8g")
    if res.invariant_violated:
        raise MachineryError(f"format specification violates {res.invariant_violated}")
    tlc_expect_ok(res, "MCFormat")
    cr.add_tlc("MCFormat", res)
    cr.mark("tlc-format")
    # 2. code -> spec: every base string through the four consumers, judged by TLC
    bases = base_strings(cr.tier, cr.seed)
    items = list(enumerate(bases, start=1))
    nsh = vlib.NCPU * (2 if quick else 8)
    shards = [items[i::nsh] for i in range(nsh)]
    results = vlib.pmap(_job, [(i, sh, cr.tier, cr.seed) for i, sh in enumerate(shards)])
    cr.mark("consumers+judge")
    nrec = sum(r[0] for r in results)
    nrows = sum(r[1] for r in results)
    nacc = sum(r[2] for r in results)
    for r in results:
        for (rid, rowi, clause, rec) in r[3]:
            row = rec["o"][rowi - 1]
            b = bytes(rec["b"])
            pre = b[0] if b[0] in PRE_BYTES else None
            op = b[1] if pre is not None else b[0]
            key = f"{clause}:ctx{row[0]}"
            cr.violation(key, f"{clause} on bytes {b.hex()} (prefix={pre}, opcode={op:#04x}) context {row[0]}, supplied {row[1]}: row={row} base={rec['o'][0]}",
                         {"bytes": rec["b"], "id": rid, "row_index": rowi, "clause": clause, "record": rec})
        for (rid, rowi, clause, b) in r[5][:5]:
            cr.add_drift(f"action=Decode clause={clause} bytes={bytes(b).hex()} row={rowi}")
        cr.cov["model_drift"] += max(0, r[6] - min(5, len(r[5])))
    # 3. the follower campaign: a few valid bases x every two-byte instruction head as the next instruction
    fitems = list(enumerate(follower_items(cr.tier), start=1))
    nshf = vlib.NCPU * 2
    fres = vlib.pmap(_job, [(1000 + i, fitems[i::nshf], "follow:" + cr.tier, cr.seed) for i in range(nshf)])
    cr.mark("followers")
    for r in fres:
        nrows += r[1]
        for (rid, rowi, clause, rec) in r[3]:
            row = rec["o"][rowi - 1]
            b = bytes(rec["b"])
            fw = bytes(rec["fw"][rowi - 2]) if rowi >= 2 else b""
            cr.violation(f"{clause}:ctx6", f"{clause}: bytes {b.hex()} decoded alone give {rec['o'][0]}, followed by {fw.hex()} they give {row}",
                         {"bytes": list(b), "follower": list(fw), "clause": clause})
    cr.cov["follower_rows"] = sum(r[1] for r in fres)
    cr.cov["evaluations"] += nrows
    cr.cov["traces_validated_against_impl"] += nrec
    cr.cov["distinct_nontrivial"] = nacc
    cr.cov["rule"] = "distinct structural byte strings (prefix x opcode x second byte, seeded fill) whose decode was accepted by the instruction-info callback; each observed through 4 consumers in up to 4+n contexts"
    cr.cov["exhaustive"] = not quick
    cr.cov["base_strings"] = nrec
    cr.add_sample({"bytes": bases[0x0812].hex(), "note": "one base string; see spec/isa/JudgeDecode.tla for the row layout"})
    cr.cov["trusted_base"] = ["harness/py/decode_harness.py", "TLC", "binja_test_mocks"]
    cr.assumptions += [
        "quick: no-prefix strings complete over opcode x second byte, prefixed strings over opcode x 35 second-byte classes; thorough: complete 16 x 256 x 256",
        "bytes after the second byte are seeded fill; independence of later bytes is checked with three trailing contexts (valid / rejected / assertion-tripping), truncations, and the follower campaign (3 valid bases quick / 8 thorough x all 65536 two-byte heads as the next instruction)",
        "a clean rejection is: callback returns None / emulator fetch returns its fallback; any raised exception is an unexpected error",
    ]


def replay(path: str) -> int:
    sys.path.insert(0, str(vlib.VERIF / "harness" / "py"))
    vlib.setup_repo_imports()
    import decode_harness as dh
    rec = json.loads(Path(path).read_text())["replay"]
    b = bytes(rec["bytes"])
    if "follower" in rec:
        o = dh.observe_followers(b, 1, 0x1000, [bytes(rec["follower"])])
        del o["fw"]
    else:
        o = dh.observe(b, 1, 0x1000, True, True, random.Random(1))
    for row in o["o"]:
        print(row)
    d = vlib.scratch("C01")
    tf = d / "obs-replay.ndjson"
    vlib.write_ndjson(tf, [o])
    res = run_tlc(SD, "JudgeDecode", "JudgeDecode.cfg", workers=1, env={"TRACE_FILE": str(tf)}, tag="C01-judge-replay", jvm=["-Xss128m"], heap="2g")
    for v in res.printed():
        if isinstance(v, tuple) and v and v[0] == "JUDGE":
            print("bad:", v[2], "drift:", v[3])
            return 1 if len(v[2]) else 0
    return 2


def selftest(seed: int) -> int:
    sys.path.insert(0, str(vlib.VERIF / "harness" / "py"))
    vlib.setup_repo_imports()
    import decode_harness as dh
    o = dh.observe(bytes([0x08, 0x12, 0, 0, 0, 0, 0]), 1, 0x1000, False, True, None)
    ok = True

    def judge(recs, tag):
        d = vlib.scratch("C01")
        tf = d / f"obs-{tag}.ndjson"
        vlib.write_ndjson(tf, recs)
        res = run_tlc(SD, "JudgeDecode", "JudgeDecode.cfg", workers=1, env={"TRACE_FILE": str(tf)}, tag=f"C01-judge-{tag}", jvm=["-Xss128m"], heap="2g")
        for v in res.printed():
            if isinstance(v, tuple) and v and v[0] == "JUDGE":
                return v
        raise MachineryError(res.out[-1500:])

    v = judge([o], "self0")
    if len(v[2]) or len(v[3]):
        print("selftest: pristine record rejected", v); ok = False
    bad = json.loads(json.dumps(o))
    bad["o"][0][5] = 3  # text callback reports another length than info
    v = judge([bad], "self1")
    if not any(x[2] == "ConsumersAgree" for x in v[2]):
        print("selftest: inconsistent lengths accepted"); ok = False
    bad = json.loads(json.dumps(o))
    bad["o"][0][3] = 9  # length beyond the supplied bytes
    v = judge([bad], "self2")
    if not any(x[2] == "LenBounds" for x in v[2]):
        print("selftest: length beyond buffer accepted"); ok = False
    print("selftest C01:", "ok" if ok else "FAILED")
    return 0 if ok else 2
