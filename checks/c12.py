"""C12 - interrupts are taken only when enabled and pending, and are undone by RETI.

spec/machine/Interrupts.tla    abstract CPU + interrupt controller (both delivery phases), model-checked
spec/machine/TraceMachine.tla  the clauses of C12 evaluated on recorded step-by-step runs of both machines
"""
from __future__ import annotations

import json, re
import random
import sys
from pathlib import Path
from typing import Any, Dict, List

import vlib
from vlib import CheckRun, MachineryError, SPEC, run_tlc, tlc_expect_ok, Vh

LEVEL = "model_checking"
SD = SPEC / "machine"
IMR_VALS = [0x00, 0x80, 0x81, 0x82, 0x83, 0x88, 0x8B, 0x01, 0x03, 0x08, 0x0B]


def _script_from_acts(acts) -> List[Dict[str, Any]]:
    out = []
    for a in acts:
        a = dict(a)
        if a["ev"] == "Step":
            ins = dict(a["ins"])
            if ins["k"] == "CLRISR":
                ins["m"] = sorted(ins["m"])
            out.append({"ev": "Step", "ins": ins})
        elif a["ev"] == "Timer":
            out.append({"ev": "Timer", "s": a["s"]})
        elif a["ev"] == "OnKey":
            out.append({"ev": "OnKey"})
    return out


def random_script(rnd: random.Random, length: int) -> List[Dict[str, Any]]:
    out: List[Dict[str, Any]] = []
    depth = 0
    style = rnd.choice(["busy", "sleepy", "nested", "timers", "keys"])
    if style == "keys":
        # the keyboard matrix as interrupt source: columns strobed, a key pressed / released while the program runs
        out.append({"ev": "Step", "ins": {"k": "STROBE", "v": 0xFF}})
    if style == "timers":
        out.append({"ev": "TimerCfg", "pm": rnd.choice([2, 3, 5]), "ps": rnd.choice([0, 4, 7])})
    for _ in range(length):
        r = rnd.random()
        if style == "keys" and r < 0.22:
            code = rnd.choice([0x01, 0x03, 0x0A, 0x21])
            out.append({"ev": "Key", "code": code, "press": rnd.random() < 0.6})
            r = 1.0
        if style == "keys" and rnd.random() < 0.08:
            out.append({"ev": "Step", "ins": {"k": "READKIL"}})
        if r < 0.04:
            out.append({"ev": "Timer", "s": 0})          # both timers expire at the same boundary
            out.append({"ev": "Timer", "s": 1})
        elif r < 0.12:
            out.append({"ev": "Timer", "s": rnd.choice([0, 1])})
        elif r < 0.16:
            out.append({"ev": "OnKey"})
        elif r < 0.19:
            out.append({"ev": "OnKeyUp"})
        r = rnd.random()
        if r < 0.25:
            ins = {"k": "NOP"}
        elif r < 0.35:
            ins = {"k": "ALU"}
        elif r < 0.60:
            v = rnd.choice(IMR_VALS if style != "nested" else [0x83, 0x8B, 0x8B, 0x81, 0x00])
            ins = {"k": "SETIMR", "v": v}
        elif r < 0.70:
            ins = {"k": "CLRISR", "m": [rnd.choice([0, 1, 2, 3])]}
        elif r < 0.80 and depth_guess(out) > 0:
            ins = {"k": "RETI"}
        elif r < 0.86 and style == "sleepy":
            ins = {"k": "HALT"}
        elif r < 0.90 and style == "sleepy":
            ins = {"k": "OFF"}
        elif r < 0.93:
            out.append({"ev": "Step", "ins": {"k": "SETI", "v": rnd.choice([0, 1, 3, 6])}})
            ins = {"k": "WAIT"}
        else:
            ins = {"k": "NOP"}
        out.append({"ev": "Step", "ins": ins})
    return out


def off_timer_scripts():
    def S(k, **kw):
        return {"ev": "Step", "ins": dict({"k": k}, **kw)}
    out = []
    for pm, ps in ((3, 5), (7, 11), (20, 30), (4, 4), (13, 2)):
        for idle in (0, 1, 2, 5, 17, 40):
            for lead in (1, 4):
                sc = [{"ev": "TimerCfg", "pm": pm, "ps": ps}, S("SETIMR", v=0)] + [S("NOP")] * lead + [S("OFF")] + [S("NOP")] * idle
                sc += [{"ev": "OnKey"}] + [S("NOP")] * (max(pm, ps) + 4) + [S("CLRISR", m=[0, 1, 3])] + [S("NOP")] * (max(pm, ps) + 2)
                out.append(sc)
    return out


def depth_guess(script) -> int:
    # the generator cannot know when deliveries happen; RETI outside a handler is legal code too (pops garbage),
    # but keeps traces meaningless, so only emit RETI when at least one interrupt source has been raised before
    return sum(1 for a in script if a["ev"] in ("Timer", "OnKey", "TimerCfg")) - sum(1 for a in script if a["ev"] == "Step" and a["ins"]["k"] == "RETI")


def nesting_scripts():
    """handlers that re-enable interrupts and are interrupted again by the same source, 2..7 levels deep, with another request
    pending but masked the whole time; then all the returns, then the unmasking (bookkeeping of a fixed small depth shows here)"""
    out = []
    for depth in range(2, 8):
        for masked in (1, 0):        # which timer request waits, masked, while the ON-key handlers nest
            s = [{"ev": "Step", "ins": {"k": "SETIMR", "v": 0x88}}, {"ev": "Timer", "s": masked}, {"ev": "Step", "ins": {"k": "NOP"}}]
            for _ in range(depth):
                s += [{"ev": "OnKey"}, {"ev": "Step", "ins": {"k": "NOP"}}, {"ev": "OnKeyUp"}, {"ev": "Step", "ins": {"k": "CLRISR", "m": [3]}},
                      {"ev": "Step", "ins": {"k": "SETIMR", "v": 0x88}}]
            for _ in range(depth):
                s += [{"ev": "Step", "ins": {"k": "NOP"}}, {"ev": "Step", "ins": {"k": "RETI"}}]
            s += [{"ev": "Step", "ins": {"k": "NOP"}}, {"ev": "Step", "ins": {"k": "SETIMR", "v": 0x88 | (1 << masked)}},
                  {"ev": "Step", "ins": {"k": "NOP"}}, {"ev": "Step", "ins": {"k": "NOP"}}, {"ev": "Step", "ins": {"k": "RETI"}}, {"ev": "Step", "ins": {"k": "NOP"}}]
            out.append(s)
    return out


def in_handler_event_scripts():
    """a NEW request arrives while a handler runs with the master enable still clear (ON key pressed, the other timer expires, a
    matrix key goes down); the handler acknowledges its own source and returns; the new request - enabled and pending - must then
    be taken, with no further event to help (timers off afterwards, no HALT)"""
    def S(k, **kw):
        return {"ev": "Step", "ins": dict({"k": k}, **kw)}
    out = []
    for first, mask in ((0, 0x8B), (1, 0x8B), (0, 0x8F), (1, 0x8A | 0x01)):
        for late in ("OnKey", "Timer0", "Timer1", "Key"):
            if late == f"Timer{first}":
                continue
            for pad in (0, 2):
                s = [S("SETIMR", v=mask), S("NOP")]
                if late == "Key":
                    s.append(S("STROBE", v=0xFF))
                s += [{"ev": "Timer", "s": first}, S("NOP"), S("NOP")]                 # delivery, then inside the handler
                s += [S("CLRISR", m=[first])]
                s += [S("NOP")] * pad
                if late == "OnKey":
                    s += [{"ev": "OnKey"}, S("NOP"), {"ev": "OnKeyUp"}]
                elif late == "Key":
                    s += [{"ev": "Key", "code": 0x01, "press": True}] + [S("NOP")] * 8
                else:
                    s += [{"ev": "Timer", "s": int(late[-1])}, S("NOP")]
                s += [S("NOP"), S("RETI")] + [S("NOP")] * 6 + [S("ALU"), S("NOP")]
                out.append(s)
    return out


def make_machine(mh, vh, impl: str):
    if impl == "rs":
        return mh.RustMachine(vh)
    if impl == "rsk":
        return mh.RustMachine(vh, kb_irq=False)
    return mh.PyMachine(fast=impl.endswith("+fast"), trace=impl.endswith("+trace"))


def drive_shard(shard_id, items, extra):
    sys.path.insert(0, str(vlib.VERIF / "harness" / "py"))
    vlib.setup_repo_imports()
    import machine_harness as mh
    vh = Vh()
    events, meta = [], {}
    tid = shard_id * 10_000_000
    try:
        for si, script in enumerate(items):
            for k, impl in enumerate(("rs", "py", "rsk", "py+fast", "py+trace")):
                if impl == "rsk" and si % 3 != 0:
                    continue          # every third script also runs on a Rust runtime built with keyboard interrupts disabled
                if impl == "py+fast" and si % 4 != 1:
                    continue          # every fourth script also runs on the Python machine's minimal stepping path (fast_mode)
                if impl == "py+trace" and si % 4 != 3:
                    continue          # ... and every fourth on a Python machine constructed with tracing switched on
                tid += 1
                m = make_machine(mh, vh, impl)
                meta[tid] = {"impl": impl.split("+")[0], "variant": impl, "script": script}
                ev = mh.run_script(m, script, tid)
                events.extend(ev)
    finally:
        vh.close()
    return events, meta


def _shape(clause: str, impl: str, detail) -> str:
    kind, pre, post, frame = detail[:4]
    if clause in ("StatusNotLost", "DeliveredSourceEnabled"):
        return detail[4]
    if clause == "PromptAfterUnmask":
        return ("pending-flag-not-rearmed-from-status" if pre.get("pend") == 0 else "general") + ":" + str(detail[4])
    if clause in ("OffStopsTimers", "OffExecutesNothing"):
        return "off-behaves-like-halt"
    if clause == "DeliverOnlyIfEnabled":
        imr = frame[0]
        if (imr & 0x80) == 0 and (post["isr"] & 0x0C):
            return "master-enable-clear-with-key-or-onkey-pending"
        return "general"
    if clause == "PromptAfterUnmask" and pre.get("pend") == 0:
        return "pending-flag-not-rearmed-from-status"
    return "general"


def campaign(cr: CheckRun, items, tag: str) -> None:
    if not items:
        return
    ntr, nev, bad = vlib.trace_campaign("C12", SD, "TraceMachine", "TraceMachine.cfg", items, drive_shard, tag)
    for b, meta in bad:
        d = b["detail"]
        detail = (d[0], dict(d[1]), dict(d[2]), list(d[3]), d[4] if len(d) > 4 else "")
        shape = _shape(b["clause"], meta["impl"], detail)
        cr.violation(f"{b['clause']}:{meta['impl']}:{shape}",
                     f"{meta['impl']} machine: {b['clause']} fails at step {b['line']} ({shape}): instr={detail[0]} pre={detail[1]} post={detail[2]} frame={detail[3]}",
                     {"impl": meta["impl"], "variant": meta.get("variant", meta["impl"]), "script": meta["script"], "clause": b["clause"], "line": b["line"]})
    cr.cov["traces_validated_against_impl"] += ntr
    cr.cov["evaluations"] += nev
    cr.cov.setdefault("campaigns", []).append({"name": tag, "traces": ntr, "events": nev, "rejected_steps": len(bad)})
    cr.add_sample({"campaign": tag, "script": items[len(items) // 2][:10]})


def run(cr: CheckRun) -> None:
    vlib.setup_repo_imports()
    vlib.build_vh()
    quick = cr.tier == "quick"
    # both delivery phases, without and with acknowledge-at-return (Python / Rust reading of who clears ISR)
    for ph in ("end", "start", "ack_end", "ack_start"):
        cfg = f"MCInterrupts_{ph}.cfg" if quick else f"MCInterrupts_{ph}_t.cfg"
        res = run_tlc(SD, "MCInterrupts", cfg, workers=vlib.NCPU, extra=["-coverage", "1"], tag="C12-" + cfg, timeout=3400, heap="12g")
        if res.invariant_violated:
            raise MachineryError(f"Interrupts model ({ph}) violates {res.invariant_violated}")
        tlc_expect_ok(res, cfg)
        cov = res.coverage_actions()
        for act in ("StepRun", "StepHalt", "StepOff", "TimerFire", "OnKey"):
            if act in cov and cov[act][1] == 0:
                raise MachineryError(f"vacuity: {act} never taken ({ph})")
        cr.add_tlc(cfg, res)
    if not quick:
        # the complete reachable state space (positions modulo 2, no depth bound): runs of every length, nesting <= 2
        for name in ("all_end_fw", "all_end_ack", "all_start_fw", "all_start_ack"):
            cfg = f"MCInterrupts_{name}.cfg"
            res = run_tlc(SD, "MCInterrupts", cfg, workers=vlib.NCPU, tag="C12-" + cfg, timeout=3400, heap="12g")
            if res.invariant_violated:
                raise MachineryError(f"Interrupts model ({name}) violates {res.invariant_violated}")
            tlc_expect_ok(res, cfg)
            cr.add_tlc(cfg, res)
    # liveness under weak fairness of the CPU (no state constraint, finite instance): a halted / powered-off CPU resumes, an owed
    # request is served; the four readings (delivery phase x who acknowledges) in thorough, the two real machines' in quick
    from concurrent.futures import ThreadPoolExecutor
    live = ("end_ack", "start_fw") if quick else ("end_fw", "end_ack", "start_fw", "start_ack")
    def _live(name):
        cfg = f"MCInterrupts_live_{name}.cfg"
        return cfg, run_tlc(SD, "MCInterrupts", cfg, workers=max(2, vlib.NCPU // len(live)), tag="C12-" + cfg, timeout=3400, heap="6g")
    with ThreadPoolExecutor(len(live)) as ex:
        for cfg, res in ex.map(_live, live):
            if "Temporal property" in res.out and "was violated" in res.out:
                raise MachineryError(f"Interrupts model violates a liveness property ({cfg}): " + re.findall(r"Temporal property (\w+) was violated", res.out)[0])
            if res.invariant_violated:
                raise MachineryError(f"Interrupts model ({cfg}) violates {res.invariant_violated}")
            tlc_expect_ok(res, cfg)
            if "Checking 6 branches of temporal properties for the complete state space" not in res.out and "temporal properties for the complete state space" not in res.out:
                raise MachineryError(f"liveness was not checked on the complete state space ({cfg})")
            cr.add_tlc(cfg, res)
    cr.mark("tlc")
    # spec -> code: TLC behaviours of the abstract machine are schedules (instruction stream + events) for the real machines
    vals, res = vlib.dump_behaviours(SD, "MCInterrupts", "MCInterrupts_replay.cfg", "C12", var="acts", coverage=False)
    tlc_expect_ok(res, "replay")
    cr.add_tlc("replay-model", res)
    items = [_script_from_acts(v) for v in vals if len(v) >= 2]
    items = items[:: max(1, len(items) // (2500 if quick else 40000))]
    campaign(cr, items, "exhaustive-schedules")
    cr.mark("exhaustive-schedules")
    sims, res = vlib.sim_behaviours(SD, "MCInterrupts", "MCInterrupts_sim.cfg", 300 if quick else 4000, 40, cr.seed, "C12", var="acts")
    sitems = [_script_from_acts(v) for v in sims if len(v) >= 2]
    campaign(cr, sitems, "simulate-schedules")
    cr.mark("simulate")
    # schedules of the composed model Machine.tla: the timers expire by themselves, driven by the machine's cycle counter - also in
    # the middle of a WAIT, during HALT idling, behind a handler that returns late - instead of being moved by the harness
    from checks import c13
    msims, res = vlib.sim_behaviours(SD, "MCMachine", "MCMachine_sim.cfg", 120 if quick else 2500, 40, cr.seed + 5, "C12m", var="acts")
    if res.invariant_violated:
        raise MachineryError(f"Machine model violates {res.invariant_violated} (simulate)")
    mitems = [c13._script_from_machine_acts(v) for v in msims if len(v) >= 3]
    campaign(cr, mitems, "machine-model-schedules")
    cr.mark("machine-model")
    # "a powered-off CPU additionally stops both timers": the runs of the composed model's schedules and dedicated OFF scripts
    # (both timers live with different periods, 0..40 idle steps while off, ON key, then long enough to see both fire) are judged by
    # TraceMachineTimers.tla; its clause OffFreezes is this sentence (the cadence clauses belong to C13 and are reported there)
    off_items = mitems + off_timer_scripts()
    ntr, nev, bad = vlib.trace_campaign("C12", SD, "TraceMachineTimers", "TraceMachineTimers.cfg", off_items, c13._machine_drive, "off-stops-timers")
    other = 0
    for b, meta in bad:
        d = b["detail"]
        if b["clause"] == "OffFreezes":
            cr.violation(f"OffFreezes:{meta['impl']}:{d[0]}", f"{meta['impl']} machine: the {d[0]} timer does not stand still while the CPU is powered off (step {b['line']}): pre={dict(d[2])} post={dict(d[3])}",
                         {"kind": "off-timers", "impl": meta["impl"], "variant": meta.get("variant", meta["impl"]), "script": meta["script"], "clause": b["clause"], "line": b["line"]})
        else:
            other += 1
    cr.cov["traces_validated_against_impl"] += ntr
    cr.cov["evaluations"] += nev
    cr.cov.setdefault("campaigns", []).append({"name": "off-stops-timers", "traces": ntr, "events": nev, "rejected_steps": len(bad), "cadence_rejections_left_to_C13": other})
    cr.mark("off-timers")
    rnd = random.Random(cr.seed)
    ritems = [random_script(rnd, 40) for _ in range(400 if quick else 6000)]
    ritems += nesting_scripts()
    ritems += in_handler_event_scripts()
    campaign(cr, ritems, "random-scripts")
    cr.mark("random")
    from checks import ext_loopdet
    ext_loopdet.run(cr)
    cr.cov["distinct_nontrivial"] = len({json.dumps(b, sort_keys=True) for b in items + sitems + ritems})
    cr.cov["rule"] = "distinct (instruction stream, event schedule) scripts executed step by step on both machines"
    cr.cov["trusted_base"] = ["vh harness (rt.rs)", "harness/py/machine_harness.py", "TLC"]
    cr.assumptions += [
        "instruction streams are poked at the current PC before every step (RAM at 0xB9000 / handler at 0xBA000, vector bytes in a ROM overlay); the handler entry is always a NOP",
        "timer expiry is injected by moving the timer target to the next cycle; the keyboard-matrix source (KEYI) is covered by C14, here KEY enters only through the mask/status registers",
        "firmware writes to ISR only clear bits (AND); prompt delivery is required outside handlers within two step boundaries",
        "the abstract model's behaviours serve as schedules; conformance is judged through the property clauses of TraceMachine.tla, not by comparing abstract states",
    ]


def replay(path: str) -> int:
    sys.path.insert(0, str(vlib.VERIF / "harness" / "py"))
    vlib.setup_repo_imports()
    vlib.build_vh()
    import machine_harness as mh
    rec = json.loads(Path(path).read_text())["replay"]
    if rec.get("kind") == "off-timers":
        from checks import c13
        evs, _ = c13._machine_drive(0, [rec["script"]], None)
        bad = [b for b in vlib.tlc_judge_trace("C12", SD, "TraceMachineTimers", "TraceMachineTimers.cfg", evs, "replay-off") if b["clause"] == "OffFreezes"]
        for b in bad:
            print("REJECTED", b["clause"], b["line"])
        return 1 if bad else 0
    vh = Vh()
    try:
        m = make_machine(mh, vh, rec.get("variant") or rec["impl"])
        ev = mh.run_script(m, rec["script"], 1)
    finally:
        vh.close()
    bad = vlib.tlc_judge_trace("C12", SD, "TraceMachine", "TraceMachine.cfg", ev, "replay")
    for b in bad:
        print("REJECTED", b["clause"], b["line"])
    return 1 if bad else 0


def selftest(seed: int) -> int:
    sys.path.insert(0, str(vlib.VERIF / "harness" / "py"))
    vlib.setup_repo_imports()
    vlib.build_vh()
    import machine_harness as mh
    script = [{"ev": "Step", "ins": {"k": "SETIMR", "v": 0x81}}, {"ev": "Timer", "s": 0}, {"ev": "Step", "ins": {"k": "NOP"}}, {"ev": "Step", "ins": {"k": "NOP"}},
              {"ev": "Step", "ins": {"k": "NOP"}}, {"ev": "Step", "ins": {"k": "RETI"}}, {"ev": "Step", "ins": {"k": "NOP"}}]
    vh = Vh()
    try:
        ev = mh.run_script(mh.RustMachine(vh), script, 1)
    finally:
        vh.close()
    ok = True
    if not any(e.get("post", {}).get("tot", 0) > e.get("pre", {}).get("tot", 0) for e in ev[1:]):
        print("selftest: no delivery happened in the reference script"); ok = False
    b0 = vlib.tlc_judge_trace("C12", SD, "TraceMachine", "TraceMachine.cfg", ev, "self0")
    if b0:
        print("selftest: pristine trace rejected", b0); ok = False
    bad = json.loads(json.dumps(ev))
    for e in bad[1:]:
        if e["post"]["tot"] > e["pre"]["tot"]:
            e["frame"][0] &= 0x7F   # pretend the master enable was clear in the pushed mask
            break
    if not any(b["clause"] == "DeliverOnlyIfEnabled" for b in vlib.tlc_judge_trace("C12", SD, "TraceMachine", "TraceMachine.cfg", bad, "self1")):
        print("selftest: delivery with master enable clear accepted"); ok = False
    print("selftest C12:", "ok" if ok else "FAILED")
    return 0 if ok else 2
