"""C07 - an instruction's effect depends only on architectural state (both cores).

spec/isa/SC62015Sem.tla     the semantics has ONLY architectural variables; a step that needs anything else to be explained
                            is not a behaviour of it (the baseline run of every group is additionally judged by JudgeSem and the
                            disagreements are counted as C04's business)
spec/isa/JudgeHistory.tla   TLC judges groups of runs from the same architectural state + bytes that differ only in history

Groups:
  hist   one probe instruction: fresh core | random TEMP0-13 and call bookkeeping | executed on a long-lived core after an
         unrelated program (also at the probe's own address, so stale decode caches show) with the architectural state restored |
         a fresh core created after everything else in the process
  split  a program run N+M steps in one go | N steps, architectural state carried into a NEW core, M steps | (Python) the
         snapshot-driven CPUStepper one step at a time | (Rust) the same executor after clear/restore
  twin   the same program on two fresh cores: every step of the two traces must agree
"""
from __future__ import annotations

import json
import random
import re
import sys
import zlib
from pathlib import Path
from typing import Any, Dict, List, Optional, Tuple

import vlib
from vlib import CheckRun, MachineryError, SPEC, run_tlc, Vh
from checks import c04

LEVEL = "model_checking"
SD = SPEC / "isa"
ARCH = ["BA", "I", "X", "Y", "U", "S", "PC", "F"]


def _res(step: Optional[Dict[str, Any]], fin: List[List[int]], nsteps: int = 1) -> Dict[str, Any]:
    if step is None:
        return {"regs": {k: 0 for k in ARCH}, "len": -1, "err": 1, "pw": "run", "fin": [], "nsteps": nsteps}
    return {"regs": {k: int(step["regs"][k]) for k in ARCH}, "len": int(step["len"]), "err": 1 if step["err"] else 0,
            "pw": "run" if str(step["power"]).startswith("run") else "low", "fin": fin, "nsteps": nsteps}


# ------------------------------------------------------------------------------------------------ Python core
class PyCore:
    impl = "py"

    def __init__(self, eh):
        self.eh = eh
        from sc62015.pysc62015.emulator import RegisterName
        self.RN = RegisterName
        self.sm = eh.SparseMem({}, 0, True)
        self.emu = eh.new_emulator(self.sm)          # the long-lived core

    def fresh(self, regs, mem, n=1, hidden=None):
        p = self.eh.run(regs, mem, n, hashed=True, hidden=hidden)
        steps = p["steps"]
        pm = p["_mem"]
        touched = sorted({a for s in steps for a, _ in s["writes"]})
        return steps, [[a, pm.mem[a]] for a in touched], p

    def after_history(self, hist, regs, mem):
        """run `hist` (regs, mem, n) on the long-lived core, then restore the architectural state of the probe and execute it"""
        sm, emu = self.sm, self.emu
        hregs, hmem, hn = hist
        sm.mem = {a: v for a, v in hmem}
        self.eh.set_regs(emu, hregs)
        emu.state.halted = False
        for _ in range(hn):
            if self.eh.step(emu, sm)["err"]:
                break
        # restore: whole memory image, every architectural register, power state
        sm.mem = {a: v for a, v in mem}
        self.eh.set_regs(emu, regs)
        emu.state.halted = False
        s = self.eh.step(emu, sm)
        touched = sorted({a for a, _ in s["writes"]})
        return [s], [[a, sm.mem[a]] for a in touched]

    def carry(self, p) -> Tuple[Dict[str, int], List[List[int]]]:
        """architectural state at the end of a fresh run: registers + full explicit memory"""
        emu, pm = p["_emu"], p["_mem"]
        return self.eh.regs_out(emu), [[a, v] for a, v in sorted(pm.mem.items())]

    def plain_run(self, regs, mem, n):
        """reference for the stepper chain: one Emulator, n steps, on the stepper's kind of memory (plain dict, default 0)"""
        from sc62015.pysc62015.emulator import Emulator
        from binja_test_mocks.eval_llil import Memory
        d = {a: v for a, v in mem}
        written = set()

        def wr(a, v):
            d[a] = v & 0xFF
            written.add(a)
        emu = Emulator(Memory(lambda a: d.get(a, 0), wr), reset_on_init=False)
        self.eh.set_regs(emu, regs)
        done = 0
        for _ in range(n):
            try:
                emu.execute_instruction(emu.regs.get(self.RN.PC))
            except Exception:      # noqa: BLE001
                return None
            done += 1
        return self.eh.regs_out(emu), d, sorted(written), done

    def stepper_chain(self, regs, mem, n):
        """CPUStepper: a new CPU object per step, only the architectural registers are carried"""
        from sc62015.pysc62015.stepper import CPUStepper, CPURegistersSnapshot
        image = {a: v for a, v in mem}
        st = CPUStepper()
        snap = CPURegistersSnapshot(pc=regs["PC"], ba=regs["BA"], i=regs["I"], x=regs["X"], y=regs["Y"], u=regs["U"], s=regs["S"], f=regs["F"])
        done = 0
        for _ in range(n):
            try:
                r = st.step(snap, image)
            except Exception:      # noqa: BLE001
                return None
            done += 1
            snap = CPURegistersSnapshot(pc=r.registers.pc, ba=r.registers.ba, i=r.registers.i, x=r.registers.x, y=r.registers.y, u=r.registers.u,
                                        s=r.registers.s, f=r.registers.f)
            image = dict(r.memory_image)
        regs_out = {"PC": snap.pc, "BA": snap.ba, "I": snap.i, "X": snap.x, "Y": snap.y, "U": snap.u, "S": snap.s, "F": snap.f}
        return regs_out, image, done

    def close(self):
        pass


# ------------------------------------------------------------------------------------------------ Rust core
class RsCore:
    impl = "rs"

    def __init__(self):
        self.vh = Vh()
        self.vh2 = None

    def _fin(self, vh, steps):
        touched = sorted({w[0] for s in steps for w in s["writes"]})
        return [[a, v] for a, v in vh.call("exec.mem", addrs=touched)["mem"]] if touched else []

    def fresh(self, regs, mem, n=1, hidden=None):
        kw = {"hidden": hidden} if hidden else {}
        r = self.vh.call("exec.run", regs=regs, mem=mem, n=n, hashed=True, **kw)
        return r["steps"], self._fin(self.vh, r["steps"]), None

    def after_history(self, hist, regs, mem):
        hregs, hmem, hn = hist
        self.vh.call("exec.run", regs=hregs, mem=hmem, n=hn, hashed=True)
        r = self.vh.call("exec.more", regs=regs, mem=mem, clear_mem=True, power="run", n=1)
        return r["steps"], self._fin(self.vh, r["steps"])

    def close(self):
        self.vh.close()


# ------------------------------------------------------------------------------------------------ groups
def hidden_state(rnd: random.Random) -> Dict[str, Any]:
    return {"temps": [rnd.choice([0, 0xFFFFFF, 0xFF, rnd.getrandbits(24)]) for _ in range(14)],
            "call_pages": [rnd.choice([0x00000, 0x10000, 0xF0000]) for _ in range(rnd.randint(0, 3))],
            "flagwise": True}        # ... and the flags written once more one by one (through the FC / FZ aliases)


def history_program(en, encs, rnd: random.Random, at: int) -> Tuple[Dict[str, int], List[List[int]], int]:
    st = en.random_state(rnd, code_at=at)
    st["regs"]["I"] = rnd.choice([1, 2, 3, 5])
    st["regs"]["S"] = 0xBFF00
    code = b""
    k = rnd.randint(3, 10)
    for _ in range(k):
        e = rnd.choice(encs)
        code += e
    # unbalanced calls / returns so that the call bookkeeping is non-trivial
    nxt = at + len(code)
    code += rnd.choice([bytes([0x04, (nxt + 3) & 0xFF, ((nxt + 3) >> 8) & 0xFF]),                      # CALL  next
                        bytes([0x05, (nxt + 4) & 0xFF, ((nxt + 4) >> 8) & 0xFF, ((nxt + 4) >> 16) & 0x0F]),   # CALLF next
                        bytes([0x05, (nxt + 4) & 0xFF, ((nxt + 4) >> 8) & 0xFF, ((nxt + 4) >> 16) & 0x0F]),
                        bytes([0xFE]), bytes([0x06]), bytes([0x07]), bytes([0x00])])
    regs, mem = en.build_case(code, st, code_at=at)
    return regs, mem, k + 1


def make_groups(en, tier: str, seed: int):
    rnd = random.Random(seed + 7)
    encs = en.valid_structures("quick", seed)
    probes = encs if tier != "quick" else encs[:: 12]
    # control transfers and stack instructions are always probed (their bookkeeping is the hidden state the property names)
    CONTROL = set(range(0x00, 0x08)) | set(range(0x10, 0x20)) | {0xFE, 0xFF, 0x4F, 0x5F} | set(range(0x28, 0x30)) | set(range(0x38, 0x40))
    seen_p = set(probes)
    probes = probes + [e for e in encs[:: 1 if tier != "quick" else 3] if en.opcode_of(e) in CONTROL and e not in seen_p]
    hist_encs = [e for e in encs if en.opcode_of(e) not in (0xDE, 0xDF, 0xFF)]     # (a history may halt; power is restored anyway)
    groups = []
    gid = 0
    for e in probes:
        gid += 1
        groups.append(("hist", gid, e, rnd.getrandbits(30)))
    # flag-producing instructions once more from an all-zero data state (zero results make stale accumulators visible)
    for e in encs[:: 2 if tier != "quick" else 9]:
        op = en.opcode_of(e)
        if 0x40 <= op <= 0x7F or op in (0xC4, 0xC5, 0xC6, 0xC7, 0xD4, 0xD5, 0xD6, 0xD7, 0xEC, 0xFC, 0xE4, 0xE5, 0xE6, 0xE7, 0xF4, 0xF5, 0xF6, 0xF7, 0xEE):
            gid += 1
            groups.append(("hist0", gid, e, rnd.getrandbits(30)))
    nprog = 96 if tier == "quick" else 2500
    straight = [e for e in encs if en.opcode_of(e) not in (0xDE, 0xDF, 0xFF, 0xEF, 0xFE, 0x01, 0x06, 0x07, 0x20, 0xBF, 0x04, 0x05, 0x02, 0x03, 0x10, 0x11)
                and not (0x12 <= en.opcode_of(e) <= 0x1F)]
    for _ in range(nprog):
        gid += 1
        groups.append(("prog", gid, None, rnd.getrandbits(30)))
    return groups, hist_encs, straight


def build_program(en, straight, seed: int):
    rnd = random.Random(seed)
    st = en.random_state(rnd)
    st["regs"]["I"] = rnd.choice([1, 2, 3, 4])
    code = b""
    for _ in range(rnd.randint(5, 14)):
        e = rnd.choice(straight)
        if en.opcode_of(e) in en.COUNTED_OPS:
            code += bytes([0x0B, rnd.choice([1, 2, 3]), 0x00])
        code += e
    back = len(code) + 2
    if back < 0x7F:
        code += bytes([0x13, back])
    regs, mem = en.build_case(code, st)
    n = rnd.randint(6, 24)
    m = rnd.randint(1, 16)
    return regs, mem, n, m


def _job(arg):
    shard_id, groups, hist_encs, straight, seed = arg
    eh, en = c04._imports()
    cores = [PyCore(eh), RsCore()]
    recs: List[Dict[str, Any]] = []
    sem_recs: List[Dict[str, Any]] = []
    late: List[Tuple[Any, ...]] = []
    rid = 0

    def add(group, kind, impl, variant, res, ref_idx, replay):
        nonlocal rid
        rid += 1
        r = dict(res)
        r.update({"id": shard_id * 10_000_000 + rid, "group": f"{impl}-{group}", "kind": kind, "impl": impl, "variant": variant, "ref": ref_idx, "replay": replay})
        recs.append(r)
        return len(recs)

    try:
        for (kind, gid, enc, gseed) in groups:
            rnd = random.Random(gseed)
            if kind in ("hist", "hist0"):
                st = en.state_for(enc, random.Random(gseed))
                if kind == "hist0":
                    keep = {k: st["imem"][k] for k in (0xEC, 0xED, 0xEE)}
                    st["imem"] = {off: 0 for off in range(256)}
                    st["imem"].update(keep)
                    st["regs"]["BA"] = 0
                    st["regs"]["F"] &= 1
                kind = "hist"
                regs, mem = en.build_case(enc, st)
                at = regs["PC"]
                for core in cores:
                    rep = {"kind": "hist", "impl": core.impl, "bytes": list(enc), "seed": gseed}
                    steps, fin, _ = core.fresh(regs, mem)
                    ref = add(gid, kind, core.impl, "fresh", _res(steps[0] if steps else None, fin), 0, rep)
                    recs[ref - 1]["ref"] = ref
                    if core.impl == "py" and steps:
                        s = steps[0]
                        sem_recs.append({"id": gid, "b": list(enc) + [0] * (8 - len(enc)), "n": len(enc), "regs": regs, "mem": mem,
                                         "post": {"regs": s["regs"], "len": s["len"], "err": 1 if s["err"] else 0, "pw": "run" if s["power"].startswith("run") else "low"},
                                         "fin": fin, "huge": 0, "nw": 0})
                    steps, fin, _ = core.fresh(regs, mem, hidden=hidden_state(rnd))
                    add(gid, kind, core.impl, "temps", _res(steps[0] if steps else None, fin), ref, rep)
                    # a sibling encoding - the same bytes except the last one - executed at the SAME address on the same core just
                    # before (a decode cache keyed by too few bytes, or by the address alone, would hand out the sibling); this comes BEFORE
                    # the probe itself is ever executed on the long-lived core, so that no cache can already hold the probe's own decode
                    if len(enc) >= 2:
                        sib = enc[:-1] + bytes([enc[-1] ^ rnd.choice([0x01, 0x10, 0x80, 0xFF])])
                        sregs, smem = en.build_case(sib, st)
                        steps, fin = core.after_history((sregs, smem, 1), regs, mem)
                        add(gid, kind, core.impl, "after-sibling-at-same-address", _res(steps[0] if steps else None, fin), ref, rep)
                    for v in ("after-program", "after-program-same-address"):
                        h = history_program(en, hist_encs, rnd, at if v.endswith("address") else rnd.choice([0x6000, 0x2FFF0, 0x90000]))
                        steps, fin = core.after_history(h, regs, mem)
                        add(gid, kind, core.impl, v, _res(steps[0] if steps else None, fin), ref, rep)
                    if len(late) < 400:
                        late.append((gid, core, regs, mem, ref, rep))
            else:
                regs, mem, n, m = build_program(en, straight, gseed)
                for core in cores:
                    rep = {"kind": "prog", "impl": core.impl, "seed": gseed}
                    steps, fin, p = core.fresh(regs, mem, n=n + m)
                    whole = _res(steps[-1] if steps else None, fin, len(steps))
                    ref = add(gid, "split", core.impl, "fresh", whole, 0, rep)
                    recs[ref - 1]["ref"] = ref
                    # twin: the same program on another fresh core, every step compared
                    steps2, fin2, _ = core.fresh(regs, mem, n=n + m)
                    same = json.dumps([(s["regs"], s["len"], s["err"], s["writes"]) for s in steps]) == json.dumps([(s["regs"], s["len"], s["err"], s["writes"]) for s in steps2])
                    tw = _res(steps2[-1] if steps2 else None, fin2, len(steps2) if same else -len(steps2))
                    add(gid, "twin", core.impl, "twin", tw, ref, rep)
                    # split: N steps, carry only the architectural state into a new core, M steps
                    if len(steps) == n + m and not steps[-1]["err"]:
                        s1, f1, p1 = core.fresh(regs, mem, n=n)
                        if core.impl == "py":
                            cregs, cmem = core.carry(p1)
                        else:
                            cregs = s1[-1]["regs"]
                            touched = {a: v for a, v in f1}
                            base = {a: v for a, v in mem}
                            base.update(touched)
                            cmem = [[a, v] for a, v in sorted(base.items())]
                        if str(s1[-1]["power"]).startswith("run"):
                            s2, f2, _ = core.fresh(cregs, cmem, n=m)
                            alladdr = {a for a, _ in fin}
                            merged = {a: v for a, v in f1 if a in alladdr}
                            merged.update({a: v for a, v in f2})
                            res = _res(s2[-1] if s2 else None, [[a, v] for a, v in sorted(merged.items())], len(s1) + len(s2))
                            res["len"] = whole["len"] if res["err"] == 0 else res["len"]
                            add(gid, "split", core.impl, "split-new-core", res, ref, rep)
                    if core.impl == "py":
                        # the snapshot-driven stepper against one Emulator on the same kind of memory (its own group)
                        pr = core.plain_run(regs, mem, n + m)
                        ch = core.stepper_chain(regs, mem, n + m) if pr is not None else None
                        if pr is not None and ch is not None:
                            pregs, pd, pw_, pdone = pr
                            cregs2, img, done = ch
                            ref2 = add(f"{gid}s", "split", core.impl, "fresh", {"regs": pregs, "len": 0, "err": 0, "pw": "run", "fin": [[a, pd[a]] for a in pw_], "nsteps": pdone}, 0, rep)
                            recs[ref2 - 1]["ref"] = ref2
                            add(f"{gid}s", "split", core.impl, "stepper-chain", {"regs": cregs2, "len": 0, "err": 0, "pw": "run", "fin": [[a, img.get(a, 0)] for a in pw_], "nsteps": done}, ref2, rep)
        # fresh cores created after everything else in this process
        for (gid, core, regs, mem, ref, rep) in late:
            steps, fin, _ = core.fresh(regs, mem)
            add(gid, "hist", core.impl, "fresh-late", _res(steps[0] if steps else None, fin), ref, rep)
    finally:
        for c in cores:
            c.close()
    # order: TLC looks the reference up by index
    d = vlib.scratch("C07")
    tf = d / f"hist-{shard_id}.ndjson"
    vlib.write_ndjson(tf, [{k: v for k, v in r.items() if k != "replay"} for r in recs])
    res = run_tlc(SD, "JudgeHistory", "JudgeHistory.cfg", workers=1, env={"TRACE_FILE": str(tf)}, tag=f"C07-{shard_id}", jvm=["-Xss128m"], heap="3g", timeout=3000)
    verdict = None
    for v in res.printed():
        if isinstance(v, tuple) and v and v[0] == "JUDGE":
            verdict = v
    if verdict is None:
        raise MachineryError(f"JudgeHistory did not complete (shard {shard_id}):\n{res.out[-2000:]}")
    tf.unlink()
    byid = {r["id"]: r for r in recs}
    bad = []
    for x in verdict[3]:
        r = byid[int(x[0])]
        ref = recs[r["ref"] - 1]
        bad.append((str(x[1]), r["impl"], r["variant"], r["replay"], {k: r[k] for k in ("regs", "len", "err", "pw", "fin", "nsteps")},
                    {k: ref[k] for k in ("regs", "len", "err", "pw", "fin", "nsteps")}))
    # the fresh Python runs against the semantics (coverage figure; disagreements are C04's findings)
    sem_bad = 0
    if sem_recs:
        v = c04.judge(10_000 + shard_id, sem_recs)
        sem_bad = len(v[2])
    return len(recs), int(verdict[2]), bad[:500], len(bad), len(sem_recs), sem_bad


def il_graph(arch, enc: bytes):
    """control-flow graph of the lifted IL of one instruction: per node the TEMP registers read / written and the successors"""
    from binja_test_mocks.mock_llil import MockLowLevelILFunction
    f = MockLowLevelILFunction()
    if arch.get_instruction_low_level_il(bytes(enc) + bytes(6), 0x4000, f) is None:
        return None
    ils = list(f.ils)
    label_at = {}
    for i, il in enumerate(ils):
        if type(il).__name__ == "MockLabel":
            label_at[id(il.label)] = i + 1

    def temps_read(x, skip_dest=False):
        out = []
        ops = getattr(x, "ops", None)
        if ops is None:
            return out
        opname = str(getattr(x, "op", ""))
        for j, o in enumerate(ops):
            if skip_dest and j == 0:
                continue
            if type(o).__name__ == "MockReg":
                if opname.startswith("REG") and str(o.name).startswith("TEMP"):
                    out.append(int(str(o.name)[4:]))
            elif hasattr(o, "ops"):
                out += temps_read(o)
        return out
    nodes = []
    n = len(ils)
    for i, il in enumerate(ils):
        opname = str(getattr(il, "op", ""))
        nxt = i + 2 if i + 1 < n else 0
        rd, wr, succ = [], [], [nxt]
        if type(il).__name__ == "MockIfExpr":
            rd = temps_read(il.ops[0]) if hasattr(il.ops[0], "ops") else []
            succ = [label_at.get(id(il.ops[1]), 0), label_at.get(id(il.ops[2]), 0)]
        elif type(il).__name__ == "MockGoto" or opname == "GOTO":
            lab = getattr(il, "label", None) or (il.ops[0] if il.ops else None)
            succ = [label_at.get(id(lab), 0)]
        elif opname.startswith("SET_REG"):
            rd = temps_read(il, skip_dest=True)
            d = il.ops[0]
            if type(d).__name__ == "MockReg" and str(d.name).startswith("TEMP"):
                wr = [int(str(d.name)[4:])]
        else:
            rd = temps_read(il)
            if opname.startswith(("JUMP", "RET", "CALL")) and not opname.startswith("CALL"):
                succ = [0]
        nodes.append({"rd": sorted(set(rd)), "wr": wr, "succ": sorted(set(succ))})
    return nodes


def temp_def_use(cr: CheckRun, en) -> None:
    """static complement: TLC explores every path of the lifted IL of every distinct instruction shape"""
    import decode_harness as dh
    arch, _ = dh._setup()
    shapes: Dict[str, Tuple[bytes, Any]] = {}
    for enc in en.valid_structures(cr.tier, cr.seed):
        try:
            g = il_graph(arch, enc)
        except Exception:      # noqa: BLE001
            g = None
        if not g:
            continue
        k = json.dumps(g)
        shapes.setdefault(k, (enc, g))
    progs = [g for (_, g) in shapes.values()]
    encs = [e for (e, _) in shapes.values()]
    d = vlib.scratch("C07")
    tf = d / "ilgraphs.json"
    tf.write_text(json.dumps(progs))
    res = run_tlc(SD, "TempDefUse", "TempDefUse.cfg", workers=vlib.NCPU, env={"TRACE_FILE": str(tf)}, tag="C07-defuse", timeout=3000, heap="6g")
    cr.add_tlc("TempDefUse (DefBeforeUse over the IL graphs of every instruction shape)", res)
    cr.cov["il_shapes"] = len(progs)
    if res.invariant_violated:
        m = re.search(r"/\\ p = (\d+)", res.out)
        m2 = re.search(r"/\\ pc = (\d+)(?![\s\S]*/\\ pc = )", res.out)
        pi = int(m.group(1)) if m else 1
        enc = encs[pi - 1]
        node = int(m2.group(1)) if m2 else 0
        g = progs[pi - 1]
        rd = g[node - 1]["rd"] if 0 < node <= len(g) else []
        cr.violation(f"DefBeforeUse:op{en.opcode_of(enc):02X}", f"the lifted IL of {enc.hex()} reads scratch register(s) TEMP{rd} at IL node {node} on a path where no earlier node of the "
                     f"same instruction wrote them (the value comes from whatever executed before)", {"kind": "defuse", "bytes": list(enc)})
    elif "Error:" in res.out:
        raise MachineryError("TempDefUse failed:\n" + res.out[-1500:])
    tf.unlink()


# ------------------------------------------------------------------------------------------------ machine level: N+M = N then M
def _machine_program(rnd: random.Random):
    """a resident program for the whole machine: a main loop that enables interrupts and raises / clears requests itself, a
    handler that returns, and both timers running with small periods - so that requests become deliverable in the middle of a
    multi-instruction batch without any new external event"""
    import machine_harness as mh
    main = [{"k": "SETIMR", "v": rnd.choice([0x83, 0x81, 0x82, 0x8B])}]
    for _ in range(rnd.randint(4, 9)):
        r = rnd.random()
        if r < 0.25:
            main.append({"k": "RAISE", "m": rnd.choice([[0], [1], [0, 1], [1, 0]])})
        elif r < 0.35:
            main.append({"k": "CLRISR", "m": [rnd.choice([0, 1])]})
        elif r < 0.45:
            main.append({"k": "SETIMR", "v": rnd.choice([0x83, 0x80, 0x03, 0x81])})
        else:
            main.append({"k": rnd.choice(["ALU", "NOP", "ALU"])})
    code = []
    for ins in main:
        code += mh.encode(ins)
    code += mh.encode({"k": "JRBACK", "v": len(code) + 2})
    handler = [{"k": "NOP"}, {"k": "ALU"}]
    if rnd.random() < 0.5:
        handler.append({"k": "CLRISR", "m": [rnd.choice([0, 1])]})
    handler.append({"k": "RETI"})
    hcode = []
    for ins in handler:
        hcode += mh.encode(ins)
    pm, ps = rnd.choice([(0, 0), (3, 3), (5, 5), (4, 6), (7, 0), (0, 5), (6, 9)])
    return code, hcode, pm, ps


def _machine_runs(impl: str, vh, prog, total: int, cuts):
    """final projections of: one batch of `total` instructions (reference), `total` single steps, and a two-batch split per cut"""
    import machine_harness as mh
    code, hcode, pm, ps = prog

    def fresh(tag):
        m = mh.RustMachine(vh, name=tag) if impl == "rs" else mh.PyMachine()
        m.poke(mh.MAIN, code)
        m.poke(mh.VEC, hcode)
        if pm or ps:
            m.event({"ev": "TimerCfg", "pm": pm, "ps": ps})
        return m

    def batch(m, n):
        if n <= 0:
            return
        if impl == "rs":
            vh.call("rt.step", name=m.name, n=n)
        else:
            m.emu.run(n)

    def proj(m):
        if impl == "rs":
            d = vh.call("rt.dump", name=m.name, ranges=[[mh.STACK - 24, 24]])
            regs = {k: int(d["regs"][k]) for k in ARCH}
            cells = [[0x1000FB, d["imem"][0xFB]], [0x1000FC, d["imem"][0xFC]]] + [[mh.STACK - 24 + i, v] for i, v in enumerate(d["mem"][str(mh.STACK - 24)])]
            o = vh.call("rt.obs", name=m.name)
            vh.call("rt.drop", name=m.name)
        else:
            from pce500.memory import INTERNAL_MEMORY_START
            r = m.emu.cpu.regs
            regs = {k: int(r.get(getattr(m.R, k))) for k in ARCH}
            rb = m.emu.memory.read_byte
            cells = [[0x1000FB, rb(INTERNAL_MEMORY_START + 0xFB) & 0xFF], [0x1000FC, rb(INTERNAL_MEMORY_START + 0xFC) & 0xFF]] + \
                    [[mh.STACK - 24 + i, rb(mh.STACK - 24 + i) & 0xFF] for i in range(24)]
            o = m.obs()
        cells += [[0x200000, int(o["tot"])], [0x200001, int(o["inint"])], [0x200002, int(o["cyc"]) % (1 << 30)], [0x200003, int(o["instr"])]]
        return {"regs": regs, "len": 0, "err": 0, "pw": "run" if o["pw"] == "run" else "low", "fin": cells, "nsteps": total}

    out = []
    m = fresh("w"); batch(m, total); out.append(("fresh", proj(m)))
    m = fresh("s")
    for _ in range(total):
        batch(m, 1)
    out.append(("single-steps", proj(m)))
    for n in cuts:
        m = fresh("c"); batch(m, n); batch(m, total - n); out.append((f"split-{n}+{total - n}", proj(m)))
    return out


def _mach_job(arg):
    shard_id, seeds = arg
    sys.path.insert(0, str(vlib.VERIF / "harness" / "py"))
    vlib.setup_repo_imports()
    vh = Vh()
    recs = []
    try:
        for gseed in seeds:
            rnd = random.Random(gseed)
            prog = _machine_program(rnd)
            total = rnd.choice([12, 20, 33])
            cuts = sorted(rnd.sample(range(1, total), 4))
            for impl in ("rs", "py"):
                runs = _machine_runs(impl, vh, prog, total, cuts)
                ref = None
                for variant, res in runs:
                    r = dict(res)
                    r.update({"id": shard_id * 10_000_000 + len(recs) + 1, "group": f"{impl}-mach{gseed}", "kind": "split", "impl": impl, "variant": "fresh" if variant == "fresh" else variant,
                              "ref": 0, "replay": {"kind": "mach", "impl": impl, "seed": gseed}})
                    recs.append(r)
                    if variant == "fresh":
                        ref = len(recs)
                    r["ref"] = ref
    finally:
        vh.close()
    d = vlib.scratch("C07")
    tf = d / f"mach-{shard_id}.ndjson"
    vlib.write_ndjson(tf, [{k: v for k, v in r.items() if k != "replay"} for r in recs])
    res = run_tlc(SD, "JudgeHistory", "JudgeHistory.cfg", workers=1, env={"TRACE_FILE": str(tf)}, tag=f"C07-mach-{shard_id}", jvm=["-Xss128m"], heap="2g", timeout=3000)
    verdict = None
    for v in res.printed():
        if isinstance(v, tuple) and v and v[0] == "JUDGE":
            verdict = v
    if verdict is None:
        raise MachineryError(f"JudgeHistory did not complete (machine shard {shard_id}):\n{res.out[-2000:]}")
    tf.unlink()
    byid = {r["id"]: r for r in recs}
    bad = []
    for x in verdict[3]:
        r = byid[int(x[0])]
        ref = recs[r["ref"] - 1]
        bad.append((str(x[1]), r["impl"], r["variant"], r["replay"], {k: r[k] for k in ("regs", "pw", "fin")}, {k: ref[k] for k in ("regs", "pw", "fin")}))
    return len(recs), int(verdict[2]), bad


# ------------------------------------------------------------------------------------------------ machine level: a used machine
def _reuse_job(arg):
    """A snapshot is loaded into a FRESH machine and into a machine that has already run another program (and written IMR, ISR,
    timers, keys ... along the way); both then run the same continuation.  What the used machine did before is not part of the
    architectural state the snapshot restores, so the two must stay identical (registers, memories, display, timers, interrupt
    state, counters) - the whole-machine reading of 'regardless of what executed before'."""
    shard_id, seeds = arg
    sys.path.insert(0, str(vlib.VERIF / "harness" / "py"))
    vlib.setup_repo_imports()
    from checks import c16, c12
    mh = c16._imports()
    vh = Vh()
    tmp = vlib.scratch("C07") / f"reuse-{shard_id}"
    tmp.mkdir(parents=True, exist_ok=True)
    recs = []

    def run(m, script):
        for a in script:
            if a["ev"] == "Step":
                m.step(a["ins"])
            elif a["ev"] == "Key" and m.impl == "py":
                m.m.event(a)              # (the harness machine resolves the matrix code to a key name)
            else:
                m.event(a)

    def flat(p):
        cells = [[0x300000 + i, int(v)] for i, v in enumerate([p["imem"], p["ram"], p["lcd"]])]
        for gi, g in enumerate(("kbd", "timers", "irq", "cnt")):
            for ki, (k, v) in enumerate(sorted(p[g].items())):
                if k == "depth":
                    continue          # call-depth metric: bookkeeping that the property itself lists as hidden state
                cells.append([0x310000 + gi * 256 + ki, v if isinstance(v, int) else zlib.crc32(str(v).encode()) & 0x7FFFFFFF])
        return {"regs": {k: int(p["regs"][k]) for k in ARCH}, "len": 0, "err": int(p["err"]), "pw": "run" if p["pw"] == "run" else "low", "fin": cells, "nsteps": 0}

    try:
        for gseed in seeds:
            rnd = random.Random(gseed)
            a_script = c12.random_script(rnd, 14)
            b_script = [{"ev": "Step", "ins": {"k": "SETIMR", "v": rnd.choice([0x55, 0x83, 0x0F])}}] + c12.random_script(rnd, 10)
            # physical inputs are the environment's, not the machine's history: the used machine's keys are let go before the load
            held = {a["code"] for a in b_script if a["ev"] == "Key"}
            b_script += [{"ev": "Key", "code": c, "press": False} for c in sorted(held)] + [{"ev": "OnKeyUp"}]
            cut = rnd.randrange(2, max(3, len(a_script) - 3))
            for cls in ("py", "rs"):
                def mk():
                    return c16.PyM(mh) if cls == "py" else c16.RsM(mh, vh)
                donor = mk()
                run(donor, a_script[:cut])
                path = str(tmp / f"s-{cls}-{gseed}.pce500snap")
                if donor.save(path):
                    donor.close()
                    continue
                fresh = mk()
                e1 = fresh.load(path)
                used = mk()
                run(used, b_script)
                e2 = used.load(path)
                if e1 or e2:
                    for m in (donor, fresh, used):
                        m.close()
                    continue
                def latch(m):
                    if cls == "py":
                        return bool(getattr(m.m.emu, "_key_irq_latched", False))
                    return bool(vh.call("rt.dump", name=m.name, ranges=[])["timer"]["key_irq_latched"])
                # structural tag: the key-interrupt latch is not part of the bundle (recorded finding) - did it survive the load?
                tag = "+keylatch" if latch(used) != latch(fresh) else ""
                for m in (fresh, used):
                    run(m, a_script[cut:])
                ref = None
                for variant, m in (("fresh", fresh), ("loaded-into-used-machine" + tag, used)):
                    r = flat(m.proj())
                    r.update({"id": shard_id * 10_000_000 + len(recs) + 1, "group": f"{cls}-reuse{gseed}", "kind": "hist", "impl": cls, "variant": variant, "ref": 0,
                              "replay": {"kind": "reuse", "impl": cls, "seed": gseed}})
                    recs.append(r)
                    if variant == "fresh":
                        ref = len(recs)
                    r["ref"] = ref
                for m in (donor, fresh, used):
                    m.close()
                try:
                    Path(path).unlink()
                except OSError:
                    pass
    finally:
        vh.close()
    if not recs:
        return 0, 0, []
    d = vlib.scratch("C07")
    tf = d / f"reuse-{shard_id}.ndjson"
    vlib.write_ndjson(tf, [{k: v for k, v in r.items() if k != "replay"} for r in recs])
    res = run_tlc(SD, "JudgeHistory", "JudgeHistory.cfg", workers=1, env={"TRACE_FILE": str(tf)}, tag=f"C07-reuse-{shard_id}", jvm=["-Xss128m"], heap="2g", timeout=3000)
    verdict = None
    for v in res.printed():
        if isinstance(v, tuple) and v and v[0] == "JUDGE":
            verdict = v
    if verdict is None:
        raise MachineryError(f"JudgeHistory did not complete (reuse shard {shard_id}):\n{res.out[-2000:]}")
    tf.unlink()
    byid = {r["id"]: r for r in recs}
    bad = []
    for x in verdict[3]:
        r = byid[int(x[0])]
        ref = recs[r["ref"] - 1]
        bad.append((str(x[1]), r["impl"], r["variant"], r["replay"], {k: r[k] for k in ("regs", "pw", "fin")}, {k: ref[k] for k in ("regs", "pw", "fin")}))
    return len(recs), int(verdict[2]), bad


def machine_reuse(cr: CheckRun) -> None:
    n = 64 if cr.tier == "quick" else 1200
    rnd = random.Random(cr.seed + 23)
    seeds = [rnd.getrandbits(30) for _ in range(n)]
    nsh = min(vlib.NCPU, 16)
    results = vlib.pmap(_reuse_job, [(150 + i, seeds[i::nsh]) for i in range(nsh)])
    for nrec, ngr, bad in results:
        cr.cov["programs"] = cr.cov.get("programs", 0) + nrec
        cr.cov["machine_reuse_groups"] = cr.cov.get("machine_reuse_groups", 0) + ngr
        for clause, impl, variant, rep, got, ref in bad:
            cr.violation(f"{clause}:{impl}:machine-{variant}", f"{impl} machine, scripts seed {rep['seed']}: after loading the same snapshot and running the same continuation, the "
                         f"machine that had run another program before ends in {got}, the fresh one in {ref}", rep)
    cr.mark("machine-reuse")


def machine_split(cr: CheckRun) -> None:
    """'Running a program for N+M steps is indistinguishable from running it N steps and then M steps' on the whole machines:
    CoreRuntime::step(k) / PCE500Emulator.run(k) batches against single steps and two-batch splits, with interrupts and timers live."""
    n = 96 if cr.tier == "quick" else 1500
    rnd = random.Random(cr.seed + 17)
    seeds = [rnd.getrandbits(30) for _ in range(n)]
    nsh = min(vlib.NCPU, 16)
    results = vlib.pmap(_mach_job, [(100 + i, seeds[i::nsh]) for i in range(nsh)])
    for nrec, ngr, bad in results:
        cr.cov["programs"] = cr.cov.get("programs", 0) + nrec
        cr.cov["machine_split_groups"] = cr.cov.get("machine_split_groups", 0) + ngr
        for clause, impl, variant, rep, got, ref in bad:
            v = "split" if variant.startswith("split-") else variant
            cr.violation(f"{clause}:{impl}:machine-{v}", f"{impl} machine, program seed {rep['seed']}: the run '{variant}' ends in {got}, one batch of the same length in {ref}", rep)
    cr.mark("machine-split")


def run(cr: CheckRun) -> None:
    eh, en = c04._imports()
    vlib.build_vh()
    temp_def_use(cr, en)
    cr.mark("defuse")
    machine_split(cr)
    machine_reuse(cr)
    mach_programs = cr.cov.get("programs", 0)
    groups, hist_encs, straight = make_groups(en, cr.tier, cr.seed)
    nsh = vlib.NCPU * 2
    results = vlib.pmap(_job, [(i, groups[i::nsh], hist_encs, straight, cr.seed) for i in range(nsh)])
    cr.mark("runs")
    nrec = sum(r[0] for r in results)
    ngroups = sum(r[1] for r in results)
    for r in results:
        for clause, impl, variant, rep, got, ref in r[2]:
            what = bytes(rep["bytes"]).hex() if rep.get("bytes") else f"program seed {rep['seed']}"
            cr.violation(f"{clause}:{impl}:{variant}", f"{impl} core, {what}: the run '{variant}' ends in {got}, the fresh run from the same architectural state in {ref}", rep)
    cr.cov["programs"] = nrec + mach_programs
    cr.cov["traces_validated_against_impl"] = nrec + mach_programs
    cr.cov["evaluations"] = nrec + mach_programs
    # growth: the call-stack / interrupt-flow tracer itself (spec/trace/CallTrace.tla; drift only)
    from checks import ext_calltrace
    ext_calltrace.run(cr)
    cr.cov["distinct_nontrivial"] = ngroups
    cr.cov["explained_by_semantics"] = {"fresh_python_runs": sum(r[4] for r in results), "not_explained (C04 findings)": sum(r[5] for r in results)}
    cr.cov["rule"] = "groups = (core, probe encoding or program, architectural state); runs = histories / splits of a group, each compared with the group's fresh run"
    cr.add_sample({"group": "hist", "variants": ["fresh", "temps", "after-program", "after-program-same-address", "fresh-late"]})
    cr.add_sample({"group": "prog", "variants": ["fresh (N+M)", "twin", "split-new-core", "stepper-chain (Python)"]})
    cr.cov["trusted_base"] = ["harness/py/exec_harness.py", "vh exec module", "binja_test_mocks LLIL evaluator", "TLC"]
    cr.assumptions += [
        "architectural state = BA I X Y U S PC F, memory, running / low-power; TEMP0-13, call_sub_level, call_page_stack / call_stack / call_depth, decoder caches and process-wide counters are hidden state",
        "restoring the architectural state on a used core = setting the eight registers, replacing the whole memory image and clearing the low-power state",
        "a split carries only registers + memory into a NEW core object; the Python CPUStepper chain creates a new CPU per step",
    ]


def replay(path: str) -> int:
    eh, en = c04._imports()
    vlib.build_vh()
    rec = json.loads(Path(path).read_text())["replay"]
    if rec.get("kind") == "defuse":
        import decode_harness as dh
        arch, _ = dh._setup()
        g = il_graph(arch, bytes(rec["bytes"]))
        tf = vlib.scratch("C07") / "ilgraph-replay.json"
        tf.write_text(json.dumps([g]))
        res = run_tlc(SD, "TempDefUse", "TempDefUse.cfg", workers=1, env={"TRACE_FILE": str(tf)}, tag="C07-defuse-replay", timeout=600)
        tf.unlink()
        print(json.dumps(g))
        print("DefBeforeUse violated" if res.invariant_violated else "DefBeforeUse holds")
        return 1 if res.invariant_violated else 0
    if rec.get("kind") == "reuse":
        r = _reuse_job((0, [rec["seed"]]))
        for b in r[2]:
            print(b[0], b[1], b[2], b[4], b[5])
        return 1 if r[2] else 0
    if rec.get("kind") == "mach":
        r = _mach_job((0, [rec["seed"]]))
        for b in r[2]:
            print(b[0], b[1], b[2], b[4], b[5])
        return 1 if r[2] else 0
    seed = rec["seed"]
    encs = en.valid_structures("quick", 1)
    hist_encs = [e for e in encs if en.opcode_of(e) not in (0xDE, 0xDF, 0xFF)]
    straight = [e for e in encs if en.opcode_of(e) not in (0xDE, 0xDF, 0xFF, 0xEF, 0xFE, 0x01, 0x06, 0x07, 0x20, 0xBF, 0x04, 0x05, 0x02, 0x03, 0x10, 0x11)
                and not (0x12 <= en.opcode_of(e) <= 0x1F)]
    g = ("hist", 1, bytes(rec["bytes"]), seed) if rec["kind"] == "hist" else ("prog", 1, None, seed)
    r = _job((0, [g], hist_encs, straight, 1))
    for b in r[2]:
        print(b[0], b[1], b[2], b[4], b[5])
    return 1 if r[3] else 0


def selftest(seed: int) -> int:
    vlib.setup_repo_imports()
    from checks import ext_calltrace
    return ext_calltrace.selftest(seed)
