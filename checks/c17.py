"""C17 - every copy of the architecture's tables and constants says the same thing.

spec/tables/Tables.tla (+ spec/isa/SC62015Table.tla as the reference copy): TLC evaluates the equalities over one JSON
document holding every live copy in a normalised vocabulary.  No transitions: TLC is the evaluator of the
specification's equalities over complete finite tables (level: other).
"""
from __future__ import annotations

import json
import re
from pathlib import Path
from typing import Any, Dict, List, Tuple

import vlib
from vlib import CheckRun, MachineryError, SPEC, REPO, run_tlc, Vh

LEVEL = "other"
SD = SPEC / "tables"
CORE = REPO / "sc62015" / "core" / "src"


def py_rows() -> List[Dict[str, Any]]:
    from sc62015.pysc62015.instr import OPCODES
    from sc62015.pysc62015.instr import opcodes as O

    def atom(op):
        n = type(op).__name__
        if n in ("Reg", "RegIL", "RegB", "RegF", "RegIMR", "RegPC"):
            r = op.reg.value if hasattr(op.reg, "value") else str(op.reg)
            return ["Reg", str(r), int(op.width()) * 8]
        if n == "Imm8":
            return ["Imm", "", 8]
        if n == "Imm16":
            return ["Imm", "", 16]
        if n == "Imm20":
            return ["Imm", "", 20]
        if n == "ImmOffset":
            return ["Off", "", 0]
        if n in ("IMem8", "IMem16", "IMem20"):
            return ["IMem", "", {1: 8, 2: 16, 3: 20}[op.width()]]
        if n == "EMemAddr":
            return ["EAddr", "", int(op.width())]
        if n == "Reg3":
            return ["R3", "", 0]
        if n == "RegPair":
            return ["RPair", "", int(op.size)]
        if n == "EMemReg":
            al = {m.name for m in (op.allowed_modes or [])}
            return ["ERegPostPre", "", 0] if al == {"POST_INC", "PRE_DEC"} else ["EReg", "", int(op.width)]
        if n == "EMemIMem":
            return ["EIMem", "", int(op._width)]
        if n == "RegIMemOffset":
            return ["RIMemOff", op.order.name, 0]
        if n == "EMemIMemOffset":
            return ["EIMemOff", op.order.name, 0]
        return ["?" + n, "", 0]

    rows = []
    for o in range(256):
        d = OPCODES.get(o)
        if d is None:
            rows.append({"name": "<missing>", "cond": "", "rev": 0, "ops": []})
            continue
        cls, opts = d if isinstance(d, tuple) else (d, O.Opts())
        rows.append({"name": opts.name or cls.__name__, "cond": opts.cond or "", "rev": 1 if opts.ops_reversed else 0,
                     "ops": [atom(op) for op in (opts.ops or [])]})
    return rows


def rs_rows(dump) -> List[Dict[str, Any]]:
    def atom(s: str):
        m = re.fullmatch(r"Reg\((\w+), (\d+)\)", s)
        if m:
            return ["Reg", m.group(1), int(m.group(2))]
        m = re.fullmatch(r"(\w+)\((\w+)\)", s)
        k, a = (m.group(1), m.group(2)) if m else (s, None)
        table = {"Imm": lambda: ["Imm", "", int(a)], "ImmOffset": lambda: ["Off", "", 0], "IMem": lambda: ["IMem", "", int(a)],
                 "EMemAddrWidth": lambda: ["EAddr", "", int(a)], "EMemRegWidth": lambda: ["EReg", "", int(a)],
                 "EMemRegModePostPre": lambda: ["ERegPostPre", "", 0], "EMemIMemWidth": lambda: ["EIMem", "", int(a)],
                 "RegIMemOffset": lambda: ["RIMemOff", {"DestImem": "DEST_IMEM", "DestRegOffset": "DEST_REG_OFFSET"}.get(a, a), 0],
                 "EMemImemOffsetDestIntMem": lambda: ["EIMemOff", "DEST_INT_MEM", 0], "EMemImemOffsetDestExtMem": lambda: ["EIMemOff", "DEST_EXT_MEM", 0],
                 "RegPair": lambda: ["RPair", "", int(a)], "RegB": lambda: ["Reg", "B", 8], "RegIL": lambda: ["Reg", "IL", 8],
                 "RegIMR": lambda: ["Reg", "IMR", 8], "RegF": lambda: ["Reg", "F", 8], "Reg3": lambda: ["R3", "", 0]}
        return table[k]() if k in table else ["?" + s, "", 0]

    rows = [None] * 256
    for e in dump["opcodes"]:
        rows[e["opcode"]] = {"name": e["name"], "cond": e["cond"] or "", "rev": 1 if e["rev"] else 0, "ops": [atom(o) for o in e["operands"]]}
    return [r or {"name": "<missing>", "cond": "", "rev": 0, "ops": []} for r in rows]


def rs_source_consts() -> Dict[str, Dict[str, int]]:
    """integer constants of every Rust source file: literals, and constants defined in terms of other constants
    (`const A: u32 = B;`, `= B + 1;`, `= mod::B;`), resolved across files - an aliased copy is still a copy"""
    out: Dict[str, Dict[str, int]] = {}
    pending: List[Tuple[str, str, str, int]] = []
    ty = r"(?:u8|u16|u32|u64|usize|i32)"
    for f in sorted(CORE.rglob("*.rs")):
        text = f.read_text()
        rel = str(f.relative_to(CORE))
        d = {}
        for m in re.finditer(r"^\s*(?:pub(?:\(crate\))? )?const (\w+): " + ty + r" = (0x[0-9A-Fa-f_]+|\d[\d_]*);", text, re.M):
            d[m.group(1)] = int(m.group(2).replace("_", ""), 0)
        for m in re.finditer(r"^\s*(?:pub(?:\(crate\))? )?const (\w+): " + ty + r" = (?:[\w:]+::)?([A-Z][A-Z0-9_]*)(?: as " + ty + r")?\s*(?:([+-])\s*(0x[0-9A-Fa-f_]+|\d[\d_]*))?;", text, re.M):
            off = int(m.group(4).replace("_", ""), 0) if m.group(4) else 0
            pending.append((rel, m.group(1), m.group(2), -off if m.group(3) == "-" else off))
        out[rel] = d
    for _ in range(4):          # resolve chains of aliases
        known: Dict[str, int] = {}
        for d in out.values():
            known.update(d)
        for rel, name, base, off in pending:
            if name not in out[rel] and (base in out[rel] or base in known):
                out[rel][name] = (out[rel].get(base, known.get(base)) + off)
    return {k: v for k, v in out.items() if v}


def rs_pre_and_single():
    text = (CORE / "llama" / "eval.rs").read_text()
    m = re.search(r"const PRE_MODES:.*?= &\[(.*?)\];", text, re.S)
    names = {"N": "N", "BpN": "BP_N", "PxN": "PX_N", "PyN": "PY_N", "BpPx": "BP_PX", "BpPy": "BP_PY"}
    pre = [[int(a, 16), names[b], names[c]] for a, b, c in re.findall(r"\((0x[0-9A-Fa-f]+), AddressingMode::(\w+), AddressingMode::(\w+)\)", m.group(1))] if m else []
    m = re.search(r"const SINGLE_ADDRESSABLE_OPCODES:.*?= &\[(.*?)\];", text, re.S)
    single = [int(x, 16) for x in re.findall(r"0x[0-9A-Fa-f]+", m.group(1))] if m else []
    return pre, single


def collect(vh: Vh) -> Dict[str, Any]:
    from sc62015.pysc62015.instr import opcodes as O
    from sc62015.pysc62015 import constants as K
    from sc62015.pysc62015.emulator import REGISTER_SIZE, Registers, RegisterName, Emulator
    from sc62015.arch import SC62015
    from sc62015 import view as V
    from binja_test_mocks.eval_llil import Memory

    dump = vh.call("tables.dump")
    src = rs_source_consts()
    groups: List[Dict[str, Any]] = []

    def group(name, **copies):
        groups.append({"name": name, "copies": [{"who": k, "v": v} for k, v in copies.items() if v is not None]})

    names = {"N": "N", "BP_N": "BP_N", "PX_N": "PX_N", "PY_N": "PY_N", "BP_PX": "BP_PX", "BP_PY": "BP_PY"}
    py_pre = [[p, O.PRE_BY_OPCODE[p].latch.first.name, O.PRE_BY_OPCODE[p].latch.second.name] for p in sorted(O.PRE_BY_OPCODE)]
    rs_pre, rs_single = rs_pre_and_single()

    # --- register storage sizes (bytes)
    arch = SC62015()
    for n in ["A", "B", "BA", "IL", "IH", "I", "X", "Y", "U", "S", "PC", "F"]:
        emu_sz = REGISTER_SIZE.get(RegisterName[n])
        arch_sz = arch.regs[n].size if n in arch.regs else None
        dec_sz = O.REG_SIZES.get(O.RegisterName(n)) if hasattr(O, "RegisterName") else None
        try:
            dec_sz = O.REG_SIZES.get(n)
        except Exception:
            dec_sz = None
        lay = dict((a, b) for a, b in dump["snapshot_layout"]).get(n)
        rw = (dump["register_width"][n] + 7) // 8
        group(f"register storage bytes {n}", py_emulator=emu_sz, bn_arch=arch_sz, py_decoder=dec_sz, rs_snapshot_layout=lay, rs_register_width=rw)
    # --- effective masks (behavioural) and the Rust mask table
    vh.call("regs.new")
    for n in ["A", "B", "BA", "IL", "IH", "I", "X", "Y", "U", "S", "PC", "F", "FC", "FZ"]:
        r = Registers()
        r.set_by_name(n, 0xFFFFFFFF)
        py_mask = r.get_by_name(n)
        vh.call("regs.new")
        rs_mask = vh.call("regs.write", name=n, value=0xFFFFFFFF)["state"][n]
        group(f"register mask {n}", py_registers=py_mask, rs_llama_state=rs_mask, rs_mask_for=dump["mask_for"][n])
    # --- sub-register layout: (base, shift)
    for sub, base, pat in [("A", "BA", 0x1234), ("B", "BA", 0x1234), ("IL", "I", 0x5678), ("IH", "I", 0x5678), ("FC", "F", 0x01), ("FZ", "F", 0x02)]:
        def shift_of(val, sub=sub, pat=pat):
            w = 1 if sub in ("FC", "FZ") else 0xFF
            for sh in range(0, 16):
                if (pat >> sh) & w == val and (sh % 8 == 0 or sub in ("FC", "FZ")):
                    return sh
            return -1
        r = Registers()
        r.set_by_name(base, pat)
        py_b = [base, shift_of(r.get_by_name(sub))]
        vh.call("regs.new")
        rs_b = [base, shift_of(vh.call("regs.write", name=base, value=pat)["state"][sub])]
        info = Registers._SUBREG_INFO[RegisterName[sub]]
        py_t = [info[0].name, info[1]]
        bn = [getattr(arch.regs[sub], "full_width_reg", None) or arch.regs[sub].name, arch.regs[sub].offset * 8] if sub in arch.regs else None
        group(f"sub-register layout {sub}", py_subreg_info=py_t, py_behaviour=py_b, rs_behaviour=rs_b, bn_arch=bn)
    # --- sub-register layout, write direction: on a background where every byte differs, writing the sub-register must change
    #     exactly its own bits of its own container (IL additionally clears IH) - per the Python table, the Binary Ninja
    #     register definitions, and the behaviour of both register files
    for bg in ({"BA": 0x1234, "I": 0x5678, "F": 0x00}, {"BA": 0xA55A, "I": 0x0F3C, "F": 0x03}):
        for sub, val in [("A", 0x9C), ("B", 0x9C), ("IL", 0xE1), ("IH", 0xE1), ("FC", 1), ("FZ", 1), ("FC", 0), ("FZ", 0)]:
            def expect(base, shift, width, sub=sub, val=val, bg=bg):
                out = dict(bg)
                m = ((1 << width) - 1) << shift
                out[base] = (bg[base] & ~m) | ((val << shift) & m)
                if sub == "IL":
                    out["I"] &= 0x00FF
                return [out["BA"], out["I"], out["F"] & 3]
            info = Registers._SUBREG_INFO[RegisterName[sub]]
            width = 1 if sub in ("FC", "FZ") else 8
            from_table = expect(info[0].name, info[1], width)
            from_bn = expect(getattr(arch.regs[sub], "full_width_reg", None) or arch.regs[sub].name, arch.regs[sub].offset * 8, width) if sub in arch.regs else None
            r = Registers()
            for k, v in bg.items():
                r.set_by_name(k, v)
            r.set_by_name(sub, val)
            py_b = [r.get_by_name("BA"), r.get_by_name("I"), r.get_by_name("F") & 3]
            vh.call("regs.new")
            for k, v in bg.items():
                vh.call("regs.write", name=k, value=v)
            st = vh.call("regs.write", name=sub, value=val)["state"]
            rs_b = [st["BA"], st["I"], st["F"] & 3]
            group(f"sub-register write {sub}={val} on {bg['BA']:04X}/{bg['I']:04X}/{bg['F']}", py_subreg_info=from_table, bn_arch=from_bn, py_behaviour=py_b, rs_behaviour=rs_b)
    # --- IMEM register offsets
    for n, off in dump["imem"].items():
        group(f"IMEM offset {n}", rs_memory=off, py_imem_registers=int(O.IMEMRegisters[n]))
    for f, d in src.items():
        for k, v in d.items():
            m = re.fullmatch(r"IMEM_(\w+)_OFFSET", k)
            if m and m.group(1) in O.IMEMRegisters.__members__ and not f.startswith("memory.rs"):
                group(f"IMEM offset {m.group(1)} ({f})", rs_source=v, py_imem_registers=int(O.IMEMRegisters[m.group(1)]))
            if k == "ISR_OFFSET":
                group(f"IMEM offset ISR ({f})", rs_source=v, py_imem_registers=int(O.IMEMRegisters.ISR))
    # --- the keyboard register block: the three named offsets and every predicate that enumerates "the keyboard registers"
    kb_py = sorted(int(O.IMEMRegisters[n]) for n in ("KOL", "KOH", "KIL"))
    group("keyboard register block", py_imem_registers=kb_py, rs_named_offsets=sorted(int(dump["imem"][n]) for n in ("KOL", "KOH", "KIL")),
          rs_is_keyboard_offset=dump["kbd_is_keyboard_offset"], rs_requires_host_without_bridge=dump["kbd_requires_host"],
          rs_keyboard_bridge_switches=dump["kbd_bridge_switches"])
    # --- interrupt mask / status bits
    for k, pyv in [("IMR_MASTER", K.IMRFlag.IRM), ("IMR_MTI", K.IMRFlag.MTM), ("IMR_STI", K.IMRFlag.STM), ("IMR_KEY", K.IMRFlag.KEYM), ("IMR_ONK", K.IMRFlag.ONKM),
                   ("ISR_MTI", K.ISRFlag.MTI), ("ISR_STI", K.ISRFlag.STI), ("ISR_KEYI", K.ISRFlag.KEYI), ("ISR_ONKI", K.ISRFlag.ONKI)]:
        for f, d in src.items():
            if k in d:
                group(f"{k} ({f})", rs_source=d[k], py_constants=int(pyv))
    # --- vectors: declared constants and behaviour
    mem_init = {0xFFFFA: 0x11, 0xFFFFB: 0x22, 0xFFFFC: 0x03, 0xFFFFD: 0x44, 0xFFFFE: 0x55, 0xFFFFF: 0x06, 0x1000: 0xFE, 0x2000: 0xFF}
    which = {0x32211: 0xFFFFA, 0x65544: 0xFFFFD}

    def py_run(pc):
        mem = dict(mem_init)
        m = Memory(lambda a: mem.get(a, 0), lambda a, v: mem.__setitem__(a, v & 0xFF))
        emu = Emulator(m, reset_on_init=False)
        emu.regs.set(RegisterName.PC, pc)
        emu.regs.set(RegisterName.S, 0x8000)
        emu.execute_instruction(pc)
        return which.get(emu.regs.get(RegisterName.PC), -1)

    def rs_run(pc):
        r = vh.call("exec.run", regs={"PC": pc, "S": 0x8000}, mem=[[a, b] for a, b in mem_init.items()])
        return which.get(r["steps"][0]["regs"]["PC"], -1)

    ivs = {f: d["INTERRUPT_VECTOR_ADDR"] for f, d in src.items() if "INTERRUPT_VECTOR_ADDR" in d}
    group("interrupt vector address", py_opcodes=int(O.INTERRUPT_VECTOR_ADDR), py_IR_behaviour=py_run(0x1000), rs_IR_behaviour=rs_run(0x1000),
          **{"rs_" + f.replace("/", "_").replace(".rs", ""): v for f, v in ivs.items()})
    m = Memory(lambda a: mem_init.get(a, 0), lambda a, v: None)
    emu = Emulator(m, reset_on_init=True)
    rvs = {f: d["ROM_RESET_VECTOR_ADDR"] for f, d in src.items() if "ROM_RESET_VECTOR_ADDR" in d}
    rs_por = which.get(vh.call("exec.power_on_reset", mem=[[a, b] for a, b in mem_init.items()])["regs"]["PC"], -1)
    group("reset vector address", py_entry_point=int(O.ENTRY_POINT_ADDR), py_RESET_behaviour=py_run(0x2000), rs_RESET_behaviour=rs_run(0x2000),
          py_power_on_reset_behaviour=which.get(emu.regs.get(RegisterName.PC), -1), rs_power_on_reset_behaviour=rs_por,
          **{"rs_" + f.replace("/", "_").replace(".rs", ""): v for f, v in rvs.items()})
    # --- address-space constants
    c = dump["consts"]
    group("internal memory start", py_constants=int(K.INTERNAL_MEMORY_START), rs_memory=c["INTERNAL_MEMORY_START"])
    group("internal memory length", py_constants=int(K.INTERNAL_MEMORY_LENGTH), rs_memory=c["INTERNAL_SPACE"], rs_addr_mask_plus_1=c["INTERNAL_ADDR_MASK"] + 1)
    group("address space size", py_constants=int(K.ADDRESS_SPACE_SIZE), rs_memory=c["EXTERNAL_SPACE"] + c["INTERNAL_SPACE"])
    group("pc mask", py_constants=int(K.PC_MASK), rs_mask_for=dump["mask_for"]["PC"])
    views = []
    for cls in (V.SC62015RomView, V.SC62015FullView):
        views.append({"name": cls.name, "segments": [{"name": s.name, "start": int(s.start), "length": int(s.length)} for s in cls.SEGMENTS]})
    # ... and what init() actually REGISTERS (recorded add_auto_segment calls) for raw files of several lengths: the declared
    # table is only the default, a view may compute its segments from the file it is given
    import contextlib, io, types
    saved_arch = V.Architecture
    V.Architecture = {"SC62015": types.SimpleNamespace(standalone_platform=None)}
    try:
        for cls in (V.SC62015RomView, V.SC62015FullView):
            for n in (0x8000, 0x20000, 0x20001, 0x40000, 0x80000, 0x100000, 0x100100):
                segs: List[Dict[str, Any]] = []

                class Stub:
                    length = n
                    file = types.SimpleNamespace(filename="image.bin")

                    def __len__(self):
                        return n

                    def read(self, a, k):
                        return bytes(k)

                class Rec(cls):          # every other BinaryView service is a no-op
                    def __getattr__(self, name):
                        if name.startswith("__"):
                            raise AttributeError(name)
                        return lambda *a, **k: 0

                    def add_auto_segment(self, start, length, off, dlen, flags, _segs=segs):
                        _segs.append({"name": f"segment {len(_segs)}", "start": int(start), "length": int(length)})

                    def add_auto_section(self, name, start, length, *a, _segs=segs, **k):
                        for sg in _segs:          # a segment takes the name of the section registered over the same range
                            if sg["start"] == int(start) and sg["length"] == int(length):
                                sg["name"] = str(name)
                with contextlib.redirect_stdout(io.StringIO()):
                    Rec(Stub()).init()
                views.append({"name": f"{cls.name} as registered by init() for a raw file of {n:#x} bytes", "segments": segs})
    finally:
        V.Architecture = saved_arch
    return {"opcodes": {"py": py_rows(), "rs": rs_rows(dump)}, "pre": {"py": py_pre, "rs": rs_pre},
            "single": {"py": sorted(O.SINGLE_ADDRESSABLE_OPCODES), "rs": rs_single}, "groups": groups, "views": views,
            "address_space_size": int(K.ADDRESS_SPACE_SIZE), "internal_memory_start": int(K.INTERNAL_MEMORY_START),
            "internal_memory_length": int(K.INTERNAL_MEMORY_LENGTH)}


def judge(doc: Dict[str, Any], tag: str):
    d = vlib.scratch("C17")
    f = d / f"tables-{tag}.json"
    f.write_text(json.dumps(doc))
    res = run_tlc(SD, "Tables", "Tables.cfg", workers=1, env={"TRACE_FILE": str(f)}, tag=f"C17-{tag}", jvm=["-Xss64m"], heap="2g")
    for v in res.printed():
        if isinstance(v, tuple) and v and v[0] == "TABLES":
            return v
    raise MachineryError("Tables judgement did not complete:\n" + res.out[-2500:])


def run(cr: CheckRun) -> None:
    vlib.setup_repo_imports()
    vlib.build_vh()
    vh = Vh()
    try:
        doc = collect(vh)
    finally:
        vh.close()
    v = judge(doc, "live")
    _, op_bad, op_drift, misc, group_bad, seg = v
    for o in op_bad:
        cr.violation(f"OpcodeRow:{o:02X}", f"opcode {o:#04x}: Python table row {doc['opcodes']['py'][o]} != Rust table row {doc['opcodes']['rs'][o]}",
                     {"opcode": o, "py": doc["opcodes"]["py"][o], "rs": doc["opcodes"]["rs"][o]})
    for o in op_drift:
        cr.add_drift(f"action=OpcodeRow opcode={o:#04x} live copies agree with each other but differ from the reference table: {doc['opcodes']['py'][o]}")
    pre_bad, pre_drift, single_bad, single_drift = misc
    if pre_bad:
        cr.violation("PreTable", f"PRE tables differ: py={doc['pre']['py']} rs={doc['pre']['rs']}", {"py": doc["pre"]["py"], "rs": doc["pre"]["rs"]})
    if single_bad:
        a, b = set(doc["single"]["py"]), set(doc["single"]["rs"])
        cr.violation("SingleAddressable", f"single-addressable opcode sets differ: only py={sorted(a - b)} only rs={sorted(b - a)}", {"only_py": sorted(a - b), "only_rs": sorted(b - a)})
    if pre_drift:
        cr.add_drift("action=PreTable live copies differ from the reference")
    if single_drift:
        cr.add_drift("action=SingleAddressable live copies differ from the reference")
    byname = {g["name"]: g for g in doc["groups"]}
    for name in group_bad:
        g = byname[name]
        cr.violation(f"Group:{name}", f"copies of '{name}' disagree: " + ", ".join(f"{c['who']}={c['v']}" for c in g["copies"]), g)
    for s in seg:
        cr.violation("ViewSegments:" + ":".join(str(x) for x in s), f"Binary Ninja view segment problem: {s}", {"segment": list(s), "views": doc["views"]})
    n_cmp = 256 + len(doc["groups"]) + 2 + sum(len(vw["segments"]) for vw in doc["views"])
    cr.cov["evaluations"] = n_cmp
    cr.cov["distinct_nontrivial"] = n_cmp
    cr.cov["rule"] = "one comparison group per opcode row / constant / table; every group has at least two independently obtained copies"
    cr.cov["explanation"] = ("complete comparison: all 256 opcode rows (Python live table, Rust live table, TLA+ reference), PRE table, single-addressable set, "
                             f"{len(doc['groups'])} constant/layout groups (declared values and behaviourally probed values), view segments; evaluated by TLC over spec/tables/Tables.tla")
    cr.cov["exhaustive"] = True
    cr.cov["groups"] = len(doc["groups"])
    cr.add_sample(doc["groups"][0])
    cr.add_sample({"opcode_0x56": {"py": doc["opcodes"]["py"][0x56], "rs": doc["opcodes"]["rs"][0x56]}})
    cr.cov["trusted_base"] = ["vh harness (tables.rs, exec.rs, regs.rs)", "regex extraction of private Rust constants from the working tree", "TLC"]
    cr.assumptions += ["the Rust table vocabulary carries no offset sign and no allowed-mode list except post-inc/pre-dec; those attributes are compared behaviourally by C06"]


def replay(path: str) -> int:
    cr = CheckRun("C17", "quick", 0, LEVEL)
    run(cr)
    want = json.loads(Path(path).read_text())["key"]
    hit = [v for v in cr.violations if v.key == want]
    for v in hit:
        print("VIOLATION", v.key, v.desc)
    return 1 if hit else 0


def selftest(seed: int) -> int:
    vlib.setup_repo_imports()
    vlib.build_vh()
    vh = Vh()
    try:
        doc = collect(vh)
    finally:
        vh.close()
    doc["opcodes"]["rs"][0x40]["ops"][1] = ["Imm", "", 16]
    doc["groups"][0]["copies"][0]["v"] = 9
    v = judge(doc, "self")
    ok = 0x40 in v[1] and doc["groups"][0]["name"] in v[4]
    print("selftest C17:", "ok" if ok else "FAILED")
    return 0 if ok else 2
