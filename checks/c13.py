"""C13 - timers fire exactly on period boundaries however time advances.

spec/machine/Timers.tla       implementation-shaped two-timer machine + declarative boundary ghosts
spec/machine/TraceTimers.tla  validation of recorded executions (Python TimerScheduler, Rust TimerContext)
"""
from __future__ import annotations

import json
import random
import sys
from pathlib import Path
from typing import Any, Dict, List, Tuple

import vlib
from vlib import CheckRun, MachineryError, SPEC, run_tlc, tlc_expect_ok, Vh

LEVEL = "model_checking"
SD = SPEC / "machine"
PROPERTY_CLAUSES = {"NeverWhenOff", "FiredIffBoundary", "NextInFuture", "FireSetsIsr", "IsrOnlyGrowsByFiring"}


class PyTimer:
    """pce500.scheduler.TimerScheduler driven the way PCE500Emulator uses it."""

    def __init__(self, en: bool, pm: int, ps: int, origin: int):
        from pce500.scheduler import TimerScheduler, TimerSource
        self.TS = TimerSource
        self.t = TimerScheduler(mti_period=pm, sti_period=ps, enabled=en)
        self.t.reset(cycle_base=origin)
        self.cycle = origin

    def tick(self, c: int):
        f = list(self.t.advance(c))
        self.cycle = c
        return (self.TS.MTI in f, self.TS.STI in f)

    def reset(self, c: int):
        self.t.reset(cycle_base=c)

    def ack(self, m: int):
        pass          # the Python scheduler holds no status register (the emulator sets ISR from the returned sources)

    def restore(self, en, pm, ps, nm, ns, c):
        # mirrors PCE500Emulator.load_snapshot's timer block
        self.t.mti_period = int(pm)
        self.t.sti_period = int(ps)
        self.t.reset(cycle_base=c)
        self.t.next_mti = nm
        self.t.next_sti = ns
        self.t.enabled = bool(en)

    def proj(self):
        t = self.t
        live_m = t.enabled and t.mti_period > 0
        live_s = t.enabled and t.sti_period > 0
        return (t.next_mti if live_m else None, t.next_sti if live_s else None, -1)


class RsTimer:
    def __init__(self, vh: Vh, en: bool, pm: int, ps: int, origin: int):
        self.vh = vh
        vh.call("timer.new", enabled=en, pm=pm, ps=ps)
        self.last = vh.call("timer.reset", cycle=origin)

    def tick(self, c: int):
        self.last = self.vh.call("timer.tick", cycle=c)
        return tuple(self.last["fired"])

    def reset(self, c: int):
        self.last = self.vh.call("timer.reset", cycle=c)

    def ack(self, m: int):
        self.last = self.vh.call("timer.ack", mask=m)

    def restore(self, en, pm, ps, nm, ns, c):
        self.last = self.vh.call("timer.restore", enabled=en, pm=pm, ps=ps, nm=nm, ns=ns, cycle=c)

    def proj(self):
        r = self.last
        live_m = r["enabled"] and r["pm"] > 0
        live_s = r["enabled"] and r["ps"] > 0
        return (r["next_mti"] if live_m else None, r["next_sti"] if live_s else None, r["isr"] & 3)


def drive_one(impl: str, beh: Dict[str, Any], vh: Vh, tid: int) -> List[Dict[str, Any]]:
    """beh = {en, pm, ps, origin, acts:[{ev:'Tick',c}, {ev:'Reset'}, {ev:'Restore',...}]}; cycles in acts are relative."""
    o = beh["origin"]
    en, pm, ps = beh["en"], beh["pm"], beh["ps"]
    t = PyTimer(en, pm, ps, o) if impl == "py" else RsTimer(vh, en, pm, ps, o)

    def rel(v):
        return 0 if v is None else v - o

    nm, ns, isr = t.proj()
    ev = [{"tid": tid, "ev": "Init", "impl": impl, "en": int(en), "pm": pm, "ps": ps, "nm": rel(nm), "ns": rel(ns)}]
    cur = 0
    for a in beh["acts"]:
        if a["ev"] == "Tick":
            cur = a["c"]
            f = t.tick(o + cur)
            nm, ns, isr = t.proj()
            ev.append({"tid": tid, "ev": "Tick", "c": cur, "fired": [int(f[0]), int(f[1])], "nm": rel(nm), "ns": rel(ns), "isr": isr})
        elif a["ev"] == "Ack":
            t.ack(a["m"])
            ev.append({"tid": tid, "ev": "Ack", "m": a["m"]})
        elif a["ev"] == "Reset":
            t.reset(o + cur)
            nm, ns, isr = t.proj()
            ev.append({"tid": tid, "ev": "Reset", "c": cur, "nm": rel(nm), "ns": rel(ns)})
        elif a["ev"] == "Restore":
            t.restore(bool(a["en"]), a["pm"], a["ps"], o + a["nm"], o + a["ns"], o + cur)
            nm, ns, isr = t.proj()
            ev.append({"tid": tid, "ev": "Restore", "en": int(bool(a["en"])), "pm": a["pm"], "ps": a["ps"], "rnm": a["nm"], "rns": a["ns"],
                       "nm": rel(nm), "ns": rel(ns)})
    return ev


def drive_shard(shard_id: int, items: List[Dict[str, Any]], extra: Any) -> Tuple[List[Dict[str, Any]], Dict[int, Any]]:
    vh = Vh()
    events: List[Dict[str, Any]] = []
    meta: Dict[int, Any] = {}
    tid = shard_id * 10_000_000
    try:
        for beh in items:
            evs = {}
            for impl in ("py", "rs"):
                tid += 1
                e = drive_one(impl, beh, vh, tid)
                evs[impl] = e
                meta[tid] = {"impl": impl, "beh": beh}
                events.extend(e)
            # Python and Rust must produce identical firing sequences and targets
            for a, b in zip(evs["py"], evs["rs"]):
                if a["ev"] == "Tick" and (a["fired"] != b["fired"] or a["nm"] != b["nm"] or a["ns"] != b["ns"]):
                    meta[tid]["pyrs_diff"] = {"py": a, "rs": b}
                    break
    finally:
        vh.close()
    return events, meta


def _beh(acts) -> Dict[str, Any]:
    """TLC history value -> behaviour record (first element is the Init configuration)."""
    i = acts[0]
    return {"en": bool(i["en"]), "pm": i["pm"], "ps": i["ps"], "origin": 0, "acts": [dict(a) for a in acts[1:]]}


def tlc_exhaustive(cr: CheckRun, cfg: str) -> None:
    res = run_tlc(SD, "MCTimers", cfg, workers=vlib.NCPU, extra=["-coverage", "1"], tag="C13-" + cfg, timeout=3000)
    if res.invariant_violated:
        raise MachineryError(f"Timers model violates {res.invariant_violated} ({cfg})")
    tlc_expect_ok(res, cfg)
    cov = res.coverage_actions()
    for act in ("Tick", "Reset", "Restore"):
        if act in cov and cov[act][1] == 0:
            raise MachineryError(f"vacuity: {act} never taken")
    cr.add_tlc(cfg, res)


def register(cr: CheckRun, bad, tag: str) -> None:
    pyrs_seen = set()
    for b, meta in bad:
        impl = meta["impl"]
        beh = meta["beh"]
        clause = b["clause"]
        rec = {"impl": impl, "behaviour": beh, "clause": clause, "line": b["line"], "detail": b["detail"]}
        if clause in PROPERTY_CLAUSES:
            cr.violation(f"{clause}:{impl}", f"{impl} timer: {clause} fails (cfg en={beh['en']} pm={beh['pm']} ps={beh['ps']}; detail {b['detail']})", rec)
        else:
            # target/phase mismatch with the model: violation only if the two implementations disagree with each other
            cr.add_drift(f"action={clause} impl={impl} cfg=({beh['en']},{beh['pm']},{beh['ps']}) detail={b['detail']}")


def campaign(cr: CheckRun, items: List[Dict[str, Any]], tag: str) -> None:
    if not items:
        return
    ntr, nev, bad = vlib.trace_campaign("C13", SD, "TraceTimers", "TraceTimers.cfg", items, drive_shard, tag)
    register(cr, bad, tag)
    cr.cov["traces_validated_against_impl"] += ntr
    cr.cov["evaluations"] += nev
    cr.cov.setdefault("campaigns", []).append({"name": tag, "traces": ntr, "events": nev, "rejected_steps": len(bad)})
    cr.add_sample({"campaign": tag, "behaviour": {**items[len(items) // 2], "acts": items[len(items) // 2]["acts"][:8]}})


def pyrs_direct(cr: CheckRun, items: List[Dict[str, Any]]) -> None:
    """Direct Python-vs-Rust comparison of firing sequences (sentence 2 of C13) on the same behaviours."""
    vh = Vh()
    n = 0
    try:
        for beh in items:
            a = drive_one("py", beh, vh, 1)
            b = drive_one("rs", beh, vh, 1)
            n += 1
            for x, y in zip(a, b):
                if x["ev"] == "Tick" and (x["fired"] != y["fired"] or x["nm"] != y["nm"] or x["ns"] != y["ns"]):
                    cr.violation("PyRsIdentical", f"Python and Rust timers diverge at tick c={x['c']} (cfg en={beh['en']} pm={beh['pm']} ps={beh['ps']}): py={x} rs={y}",
                                 {"behaviour": beh, "py": x, "rs": y})
                    break
    finally:
        vh.close()
    cr.cov["pyrs_direct_comparisons"] = cr.cov.get("pyrs_direct_comparisons", 0) + n


def random_behaviours(seed: int, n: int, length: int) -> List[Dict[str, Any]]:
    rnd = random.Random(seed)
    big_periods = [1, 2, 3, 7, 2048, 512000, 65521, 1000003, (1 << 20) + 1, (1 << 24) - 3, 1 << 27]
    origins = [0, 0, 1000, (1 << 31) - 5000, (1 << 31) + 17, (1 << 32) - 100000, (1 << 32) + 5, (1 << 40) + 123, (1 << 62)]
    out = []
    for _ in range(n):
        pm = rnd.choice(big_periods + [0])
        ps = rnd.choice(big_periods + [0])
        en = rnd.random() < 0.9
        o = rnd.choice(origins)
        acts = []
        c = 0
        for _ in range(length):
            r = rnd.random()
            if r < 0.05:
                acts.append({"ev": "Reset"})
            elif r < 0.22 and acts and acts[-1]["ev"] == "Tick":
                acts.append({"ev": "Ack", "m": rnd.choice([1, 2, 3, 3])})
            elif r < 0.10:
                p1 = rnd.choice(big_periods + [0])
                p2 = rnd.choice(big_periods + [0])
                acts.append({"ev": "Restore", "en": rnd.random() < 0.85, "pm": p1, "ps": p2,
                             "nm": max(1, c + rnd.choice([-3, 0, 1, p1 or 5, 2 * (p1 or 5) + 1])),
                             "ns": max(1, c + rnd.choice([-1, 0, 2, p2 or 9]))})
            else:
                per = max(1, min(x for x in (pm, ps, 10**9) if x > 0))
                mode = rnd.random()
                if mode < 0.35:
                    g = 1
                elif mode < 0.6:
                    g = rnd.randint(0, 20)
                elif mode < 0.85:
                    g = rnd.choice([per - 1, per, per + 1, per // 2, 2 * per, 3 * per + 1])
                else:
                    g = rnd.randint(0, 5 * per)
                c += max(0, g)
                if c > (1 << 30):
                    break
                acts.append({"ev": "Tick", "c": c})
        if any(a["ev"] == "Restore" for a in acts) and o >= (1 << 30):
            # snapshot metadata (Rust TimerInfo) carries targets as i32: restore points are only meaningful while
            # absolute cycle values fit; the large-counter snapshot case is C16's business
            o = rnd.choice([0, 1000, 123456789])
        out.append({"en": en, "pm": pm, "ps": ps, "origin": o, "acts": acts})
    return out


def huge_gap_behaviours(tier: str) -> List[Dict[str, Any]]:
    """a timer left unticked for more than 2^24 periods (gating inside a stuck handler, timers re-enabled after a long pause), the
    catching-up tick landing exactly on / just before / just after a period boundary, followed by dense ticks"""
    out = []
    combos = [(3, 0, 0), (0, 2, 1)] if tier == "quick" else [(1, 0, 0), (3, 0, 1), (0, 2, 2), (7, 5, 0), (2, 3, 1)]
    for pm, ps, k in combos:
        per = pm or ps
        for delta in (0, -1, 1):
            c0 = per + 1
            c1 = per * ((1 << 24) + 2 + k) + delta + (7 % per if per > 1 else 0) * 0
            acts = [{"ev": "Tick", "c": c0}, {"ev": "Tick", "c": c1}, {"ev": "Tick", "c": c1 + 1}, {"ev": "Tick", "c": c1 + 2},
                    {"ev": "Tick", "c": c1 + per}, {"ev": "Tick", "c": c1 + 2 * per + 1}]
            out.append({"en": True, "pm": pm, "ps": ps, "origin": 0, "acts": acts})
    return out


def _snap_job(arg):
    shard_id, scripts = arg
    from checks import c16
    mh = c16._imports()
    tmp = vlib.scratch("C13") / f"snap{shard_id}"
    tmp.mkdir(parents=True, exist_ok=True)
    vh = Vh()
    recs = []
    try:
        for machine in (c16.PyM(mh), c16.RsM(mh, vh)):
            r, bundles = c16.campaign(machine, scripts, tmp, shard_id)
            recs += r
    finally:
        vh.close()
        for f in tmp.glob("*"):
            try:
                f.unlink()
            except OSError:
                pass
    v = c16.judge(7000 + shard_id, recs)
    byid = {r["id"]: r for r in recs}
    bad = []
    for x in v[2]:
        r = byid[int(x[0])]
        subs = sorted(str(f) for f in x[4]) if len(x) > 4 else []
        comp = str(x[3]) + ("." + "+".join(subs) if subs else "")
        bad.append((r["impl"], comp, int(x[2]), r["cls"], r["replay"]))
    return len(recs), bad[:500]


def snapshot_cadence(cr: CheckRun) -> None:
    rnd = random.Random(cr.seed + 13)
    scripts = []
    for _ in range(24 if cr.tier == "quick" else 300):
        pm, ps = rnd.choice([(2, 0), (3, 4), (5, 7), (4, 6), (0, 3), (7, 5)])
        s = [{"ev": "TimerCfg", "pm": pm, "ps": ps}]
        for _k in range(rnd.randint(10, 22)):
            r = rnd.random()
            if r < 0.12:
                s.append({"ev": "Step", "ins": {"k": "CLRISR", "m": [rnd.choice([0, 1])]}})
            elif r < 0.18:
                s.append({"ev": "Step", "ins": {"k": "SETI", "v": rnd.choice([2, 3, 5])}})
                s.append({"ev": "Step", "ins": {"k": "WAIT"}})
            else:
                s.append({"ev": "Step", "ins": {"k": "NOP"}})
        scripts.append(s)
    nsh = min(vlib.NCPU, len(scripts))
    res = vlib.pmap(_snap_job, [(i, scripts[i::nsh]) for i in range(nsh)])
    n = 0
    for cnt, bad in res:
        n += cnt
        for impl, comp, k, cls, rep in bad:
            if comp.split(".")[0] in ("timers", "imem", "irq", "cnt"):
                cr.violation(f"RestoreKeepsCadence:{impl}:{comp}", f"{impl} machine: a snapshot taken at script position {rep['point']} (timers running) and loaded into a fresh machine "
                             f"differs from the uninterrupted run in '{comp}' at continuation position {k}", {"kind": "snapshot", **rep})
    cr.cov["traces_validated_against_impl"] += n
    cr.cov["evaluations"] += n
    cr.mark("snapshot-cadence")


# ------------------------------------------------------------------ machine level: Machine.tla schedules on the whole machines

def _script_from_machine_acts(acts) -> List[Dict[str, Any]]:
    out: List[Dict[str, Any]] = []
    for a in acts:
        a = dict(a)
        if a["ev"] == "TimerCfg":
            out.append({"ev": "TimerCfg", "pm": int(a["pm"]), "ps": int(a["ps"])})
        elif a["ev"] == "OnKey":
            out.append({"ev": "OnKey"})
            out.append({"ev": "OnKeyUp"})
        elif a["ev"] == "Step":
            ins = dict(a["ins"])
            if ins["k"] == "WAIT":
                out.append({"ev": "Step", "ins": {"k": "SETI", "v": int(ins["n"])}})
                out.append({"ev": "Step", "ins": {"k": "WAIT"}})
            elif ins["k"] == "CLRISR":
                out.append({"ev": "Step", "ins": {"k": "CLRISR", "m": sorted(ins["m"])}})
            elif ins["k"] == "SETIMR":
                out.append({"ev": "Step", "ins": {"k": "SETIMR", "v": int(ins["v"])}})
            else:
                out.append({"ev": "Step", "ins": {"k": ins["k"]}})
    return out


def random_machine_script(rnd: random.Random, length: int) -> List[Dict[str, Any]]:
    """timers of small and medium periods under programs that make time advance unevenly: WAITs of many lengths, HALT idling,
    handlers (ticks suppressed while they run) that return late, masks opened and closed, acknowledges, OFF and the ON key"""
    pm, ps = rnd.choice([(2, 0), (3, 4), (5, 7), (0, 3), (7, 5), (13, 31), (64, 9), (1, 1), (6, 0), (0, 0), (100, 17)])
    out: List[Dict[str, Any]] = [{"ev": "TimerCfg", "pm": pm, "ps": ps}]
    style = rnd.choice(["plain", "handlers", "sleepy", "waits"])
    if style in ("handlers", "sleepy"):
        out.append({"ev": "Step", "ins": {"k": "SETIMR", "v": rnd.choice([0x83, 0x81, 0x82, 0x8B])}})
    for _ in range(length):
        r = rnd.random()
        if r < (0.30 if style == "waits" else 0.10):
            out.append({"ev": "Step", "ins": {"k": "SETI", "v": rnd.choice([0, 1, 2, 3, 5, 8, 13, 40, 130])}})
            out.append({"ev": "Step", "ins": {"k": "WAIT"}})
        elif r < 0.40:
            out.append({"ev": "Step", "ins": {"k": "CLRISR", "m": [rnd.choice([0, 1, 0, 1, 3])]}})
        elif r < 0.50 and style in ("handlers", "sleepy"):
            out.append({"ev": "Step", "ins": {"k": "RETI"}})
        elif r < 0.58 and style in ("handlers", "sleepy"):
            out.append({"ev": "Step", "ins": {"k": "SETIMR", "v": rnd.choice([0x83, 0x81, 0x82, 0x00, 0x03, 0x8B])}})
        elif r < 0.66 and style == "sleepy":
            out.append({"ev": "Step", "ins": {"k": "HALT"}})
        elif r < 0.69 and style == "sleepy":
            out.append({"ev": "Step", "ins": {"k": "OFF"}})
        elif r < 0.73 and style == "sleepy":
            out.append({"ev": "OnKey"})
            out.append({"ev": "OnKeyUp"})
            out.append({"ev": "Step", "ins": {"k": "NOP"}})
        elif r < 0.76:
            out.append({"ev": "TimerCfg", "pm": rnd.choice([0, 2, 3, 5, 9]), "ps": rnd.choice([0, 4, 7, 11])})
            out.append({"ev": "Step", "ins": {"k": "NOP"}})
        else:
            out.append({"ev": "Step", "ins": {"k": rnd.choice(["NOP", "NOP", "ALU"])}})
    return out


def _machine_drive(shard_id, items, extra):
    sys.path.insert(0, str(vlib.VERIF / "harness" / "py"))
    vlib.setup_repo_imports()
    import machine_harness as mh
    vh = Vh()
    events, meta = [], {}
    tid = shard_id * 10_000_000
    try:
        for si, script in enumerate(items):
            # every third script also on the Python machine's minimal stepping path (fast_mode: WAIT is simulated by a separate
            # routine there), every third on one constructed with tracing switched on
            for impl in ("rs", "py") + (("py+fast",) if si % 3 == 1 else ()) + (("py+trace",) if si % 3 == 2 else ()):
                tid += 1
                m = mh.RustMachine(vh) if impl == "rs" else mh.PyMachine(fast=impl.endswith("+fast"), trace=impl.endswith("+trace"))
                meta[tid] = {"impl": impl.split("+")[0], "variant": impl, "script": script}
                events.extend(mh.run_script(m, script, tid))
    finally:
        vh.close()
    return events, meta


def machine_cadence(cr: CheckRun) -> None:
    """Machine.tla: the timers driven by the machine's own cycle counter (instruction cycles, WAIT, HALT idle cycles, ticks suppressed
    in handlers, nothing while powered off).  TLC checks the cadence clauses on the composition under both tick orders; its behaviours
    are scripts for the real machines, whose recorded runs are judged by the same clauses (TraceMachineTimers.tla)."""
    quick = cr.tier == "quick"
    for order in ("post", "pre"):
        cfg = f"MCMachine_{order}.cfg" if quick else f"MCMachine_{order}_t.cfg"
        res = run_tlc(SD, "MCMachine", cfg, workers=vlib.NCPU, extra=["-coverage", "1"], tag="C13-" + cfg, timeout=3000, heap="8g")
        if res.invariant_violated:
            raise MachineryError(f"Machine model ({order}) violates {res.invariant_violated}")
        tlc_expect_ok(res, cfg)
        cov = res.coverage_actions()
        for act in ("StepRun", "StepHalt", "StepOff", "OnKey"):
            if act in cov and cov[act][1] == 0:
                raise MachineryError(f"vacuity: {act} never taken (Machine, {order})")
        cr.add_tlc(cfg, res)
    vals, res = vlib.dump_behaviours(SD, "MCMachine", "MCMachine_replay.cfg", "C13m", var="acts", coverage=False)
    tlc_expect_ok(res, "machine replay model")
    cr.add_tlc("machine-replay-model", res)
    items = [_script_from_machine_acts(v) for v in vals if len(v) >= 3]
    items = items[:: max(1, len(items) // (600 if quick else 20000))]
    sims, res = vlib.sim_behaviours(SD, "MCMachine", "MCMachine_sim.cfg", 150 if quick else 3000, 40, cr.seed, "C13m", var="acts")
    if res.invariant_violated:
        raise MachineryError(f"Machine model violates {res.invariant_violated} (simulate)")
    items += [_script_from_machine_acts(v) for v in sims if len(v) >= 3]
    rnd = random.Random(cr.seed + 131)
    items += [random_machine_script(rnd, 45) for _ in range(250 if quick else 5000)]
    ntr, nev, bad = vlib.trace_campaign("C13", SD, "TraceMachineTimers", "TraceMachineTimers.cfg", items, _machine_drive, "machine-cadence")
    for b, meta in bad:
        d = b["detail"]
        # a RETI executed while no delivery is outstanding (firmware using it as a far return): the Rust epilogue then clears a
        # live status bit (the C12 finding 'no-return'), which can be the bit of a timer that fired in that very step
        shape = ":reti-without-delivery" if (b["clause"] == "FireSetsStatus" and str(d[1]) == "RETI" and int(dict(d[2]).get("inint", 0)) == 0) else ""
        cr.violation(f"Machine{b['clause']}:{meta['impl']}{shape}", f"{meta['impl']} machine: {b['clause']} ({d[0]}) fails at step {b['line']}: instr={d[1]} pre={dict(d[2])} post={dict(d[3])}",
                     {"kind": "machine", "impl": meta["impl"], "variant": meta.get("variant", meta["impl"]), "script": meta["script"], "clause": b["clause"], "line": b["line"]})
    cr.cov["traces_validated_against_impl"] += ntr
    cr.cov["evaluations"] += nev
    cr.cov.setdefault("campaigns", []).append({"name": "machine-cadence", "traces": ntr, "events": nev, "rejected_steps": len(bad)})
    cr.add_sample({"campaign": "machine-cadence", "script": items[len(items) // 2][:12]})
    cr.mark("machine-cadence")


def unbounded(cr: CheckRun) -> None:
    """Apalache (symbolic integers): the target is always the least unconsumed boundary - for every cycle count, gap and restored
    target - and the C13 clauses follow from that in one step.  The step clauses are discharged for a symbolic period P > 0; the
    inductiveness of Ind needs P concrete (non-linear otherwise): small periods, primes and the machine's real 2048 / 512000."""
    import shutil
    src = SD / "ind"
    ind = vlib.scratch("C13") / "ind"
    shutil.rmtree(ind, ignore_errors=True)
    shutil.copytree(src, ind)
    quick = cr.tier == "quick"
    periods = [1, 2, 7, 2048, 512000] if quick else [1, 2, 3, 4, 5, 6, 7, 11, 64, 1000, 2048, 65521, 512000, 1 << 27]
    jobs = []
    for P in periods:
        mod = ind / f"ApaTimers_{P}.tla"
        mod.write_text(f"---- MODULE ApaTimers_{P} ----\nEXTENDS Integers\nVARIABLES\n  \\* @type: Int;\n  cycle,\n  \\* @type: Int;\n  next,\n"
                       f"  \\* @type: Int;\n  phase,\n  \\* @type: Int;\n  low,\n  \\* @type: Bool;\n  fired,\n  \\* @type: Str;\n  last\n"
                       f"\\* @type: Int;\nPP == {P}\nINSTANCE TimersInd WITH P <- PP\n====\n")
        jobs.append((str(ind), mod.name, ["--init=Init", "--inv=Ind", "--length=0"], f"C13-base-{P}", 600))
        for inv in ("Ind", "Consumed"):
            jobs.append((str(ind), mod.name, ["--init=IndInit", f"--inv={inv}", "--length=1"], f"C13-step-{inv}-{P}", 600))
    for inv in ("FiredIffBoundary", "NextInFuture"):
        jobs.append((str(ind), "ApaTimersSym.tla", ["--cinit=CInit", "--init=IndInit", f"--inv={inv}", "--length=1"], f"C13-sym-{inv}", 900))
    res = vlib.pmap(vlib.run_apalache, jobs, procs=min(8, vlib.NCPU))
    for r in res:
        if r["outcome"] != "NoError":
            raise MachineryError(f"Apalache: {r['tag']} {r['args']} -> {r['outcome']} {r['tail']}")
    cr.cov["apalache"] = [{k: r[k] for k in ("tag", "outcome", "wall_s")} for r in res]
    # the closed form used there is the loop of Timers.tla (TLC, finite box)
    r2 = run_tlc(ind, "MCPushAgrees", "MCPushAgrees.cfg", workers=1, tag="C13-pushagrees", timeout=600)
    tlc_expect_ok(r2, "MCPushAgrees")
    cr.add_tlc("push-closed-form-agrees", r2)
    cr.mark("apalache")


def run(cr: CheckRun) -> None:
    vlib.setup_repo_imports()
    vlib.build_vh()
    quick = cr.tier == "quick"
    unbounded(cr)
    # 1. exhaustive model check of the specification (properties on the model)
    tlc_exhaustive(cr, "MCTimers_quick.cfg" if quick else "MCTimers_thorough.cfg")
    # 2. spec -> code: all behaviours of the small recorded model + simulated deeper ones
    vals, res = vlib.dump_behaviours(SD, "MCTimers", "MCTimers_replay.cfg" if quick else "MCTimers_replay_t.cfg", "C13", var="acts")
    if res.invariant_violated:
        raise MachineryError(f"Timers replay model violates {res.invariant_violated}")
    tlc_expect_ok(res, "replay model")
    cr.add_tlc("replay-model", res)
    items = [_beh(v) for v in vals if len(v) > 1]
    campaign(cr, items, "exhaustive-replay")
    sims, res = vlib.sim_behaviours(SD, "MCTimers", "MCTimers_sim.cfg", 400 if quick else 4000, 40, cr.seed, "C13", var="acts")
    if res.invariant_violated:
        raise MachineryError(f"Timers model violates {res.invariant_violated} (simulate)")
    sitems = [_beh(v) for v in sims if len(v) > 1]
    campaign(cr, sitems, "simulate")
    # 3. code -> spec: large periods / large origins, seeded random gaps
    rnd = random_behaviours(cr.seed, 600 if quick else 8000, 60)
    campaign(cr, rnd, "random-large")
    campaign(cr, huge_gap_behaviours(cr.tier), "huge-gap")
    pyrs_direct(cr, rnd[: (200 if quick else 2000)] + items[:: max(1, len(items) // 500)])
    # 4. machine level, the quantifier's "snapshot-restore points": a machine saved at ANY tick and loaded into a fresh one keeps
    #    the firing cadence (every position of timer-only scripts is a snapshot point; shares the machinery of C16)
    snapshot_cadence(cr)
    # 5. machine level, "however the cycle counter advances": the composition Machine.tla and its schedules on both machines
    machine_cadence(cr)
    cr.cov["distinct_nontrivial"] = len({json.dumps(b, sort_keys=True) for b in items + sitems + rnd})
    cr.cov["rule"] = "distinct (configuration, action sequence) behaviours with at least one Tick, replayed on both implementations"
    cr.cov["trusted_base"] = ["vh harness (timer.rs)", "TLC", "lib/vlib.py"]
    cr.assumptions += [
        "scheduler-level: TimerScheduler.advance / TimerContext::tick_timers on bare objects; machine-level ticking (instruction cycles, WAIT, HALT idle, handlers, OFF) is judged on whole-machine runs by TraceMachineTimers.tla, whose clauses do not depend on whether a machine ticks before or after the instruction (Machine.tla, both orders model-checked)",
        "cycle values are logged relative to a per-trace origin (origins up to 2^62) because TLC integers are 32-bit; periods up to 2^27",
        "`enabled` is part of the configuration / snapshot contents; toggling it between ticks without a restore is not in the property's quantifier",
    ]


def replay(path: str) -> int:
    vlib.setup_repo_imports()
    vlib.build_vh()
    rec = json.loads(Path(path).read_text())["replay"]
    if rec.get("kind") == "snapshot":
        n, bad = _snap_job((99, [rec["script"]]))
        hit = [b for b in bad if b[4]["point"] == rec["point"] and b[0] == rec["impl"]]
        for b in hit:
            print(b[:4])
        return 1 if hit else 0
    if rec.get("kind") == "machine":
        sys.path.insert(0, str(vlib.VERIF / "harness" / "py"))
        import machine_harness as mh
        vh = Vh()
        try:
            v = rec.get("variant") or rec["impl"]
            m = mh.RustMachine(vh) if v == "rs" else mh.PyMachine(fast=v.endswith("+fast"), trace=v.endswith("+trace"))
            evs = mh.run_script(m, rec["script"], 1)
        finally:
            vh.close()
        bad = vlib.tlc_judge_trace("C13", SD, "TraceMachineTimers", "TraceMachineTimers.cfg", evs, "replay-machine")
        for b in bad:
            print("REJECTED", b["clause"], b["line"])
        return 1 if bad else 0
    beh = rec["behaviour"]
    vh = Vh()
    try:
        evs = []
        for i, impl in enumerate(("py", "rs")):
            evs += drive_one(impl, beh, vh, i + 1)
    finally:
        vh.close()
    for e in evs:
        print(json.dumps(e))
    bad = vlib.tlc_judge_trace("C13", SD, "TraceTimers", "TraceTimers.cfg", evs, "replay")
    for b in bad:
        print("REJECTED", b)
    return 1 if any(b["clause"] in PROPERTY_CLAUSES for b in bad) else 0


def selftest(seed: int) -> int:
    vlib.setup_repo_imports()
    vlib.build_vh()
    beh = {"en": True, "pm": 3, "ps": 5, "origin": 0, "acts": [{"ev": "Tick", "c": c} for c in (1, 2, 3, 4, 9, 10, 15)]}
    vh = Vh()
    try:
        ev = drive_one("rs", beh, vh, 1)
    finally:
        vh.close()
    ok = True
    if vlib.tlc_judge_trace("C13", SD, "TraceTimers", "TraceTimers.cfg", ev, "self0"):
        print("selftest: pristine trace rejected"); ok = False
    bad = json.loads(json.dumps(ev))
    bad[3]["fired"] = [0, 0]  # hide the firing at c=3
    if not vlib.tlc_judge_trace("C13", SD, "TraceTimers", "TraceTimers.cfg", bad, "self1"):
        print("selftest: corrupted trace accepted"); ok = False
    dropped = ev[:3] + ev[4:]  # drop the tick at c=3: the boundary is then consumed by the tick at c=4 which logged no firing
    if not vlib.tlc_judge_trace("C13", SD, "TraceTimers", "TraceTimers.cfg", dropped, "self2"):
        print("selftest: trace with dropped event accepted"); ok = False
    # machine level: a recorded run of the real Rust machine is accepted; the same run with a target pushed one period too far,
    # with a hidden status bit, or with a target moved off its phase is rejected by the clause that says so
    sys.path.insert(0, str(vlib.VERIF / "harness" / "py"))
    import machine_harness as mh
    script = [{"ev": "TimerCfg", "pm": 3, "ps": 5}] + [{"ev": "Step", "ins": {"k": "NOP"}} for _ in range(4)] + \
             [{"ev": "Step", "ins": {"k": "SETI", "v": 4}}, {"ev": "Step", "ins": {"k": "WAIT"}}] + [{"ev": "Step", "ins": {"k": "NOP"}} for _ in range(3)]
    vh = Vh()
    try:
        mev = mh.run_script(mh.RustMachine(vh), script, 1)
    finally:
        vh.close()
    if vlib.tlc_judge_trace("C13", SD, "TraceMachineTimers", "TraceMachineTimers.cfg", mev, "selfm0"):
        print("selftest: pristine machine trace rejected"); ok = False
    k = next(i for i, e in enumerate(mev) if e["ev"] == "Step" and e["post"]["nm"] > e["pre"]["nm"] > 0)
    for name, mut, want in (("skip", lambda e: e["post"].__setitem__("nm", e["post"]["nm"] + 3), "NoBoundarySkipped"),
                            ("hide", lambda e: e["post"].__setitem__("isr", e["post"]["isr"] & ~1), "FireSetsStatus"),
                            ("phase", lambda e: e["post"].__setitem__("nm", e["post"]["nm"] + 1), "PhasePreserved")):
        b2 = json.loads(json.dumps(mev))
        mut(b2[k])
        got = {b["clause"] for b in vlib.tlc_judge_trace("C13", SD, "TraceMachineTimers", "TraceMachineTimers.cfg", b2, "selfm-" + name)}
        if want not in got:
            print(f"selftest: machine trace mutation '{name}' not rejected by {want} (got {got})"); ok = False
    print("selftest C13:", "ok" if ok else "FAILED")
    return 0 if ok else 2
