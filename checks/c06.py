"""C06 - the Rust LLAMA core and the Python core agree on every instruction.

Differential execution (translation validation between the two cores): every valid structural encoding x boundary /
seeded random architectural states is executed once on each core from identical registers, flags and memory; TLC
(spec/isa/JudgeParity.tla over SC62015Format.tla) judges every pair: same registers, C/Z, PC, power state, consumed
length and the same final contents of every location either core wrote; the consumed length must also be the length the
format specification assigns to the encoding.  Seeded random programs are run in lockstep.
"""
from __future__ import annotations

import json
import random
import sys
from pathlib import Path
from typing import Any, Dict, List

import vlib
from vlib import CheckRun, MachineryError, SPEC, run_tlc, Vh

LEVEL = "translation_validation"
SD = SPEC / "isa"


def _norm_power(p: str) -> str:
    return "run" if p.startswith("run") else "low"     # Python has a single low-power state (halted)


def _same(rec) -> bool:
    a, b = rec["py"], rec["rs"]
    ra = dict(a["regs"]); rb = dict(b["regs"])
    ra["F"] &= 3; rb["F"] &= 3          # carry and zero are the architectural flags
    return ra == rb and a["len"] == b["len"] and a["err"] == b["err"] and a["pw"] == b["pw"] and not rec["memdiff"]


BLOCK = 1 << 40      # state-seed flag: block length above 256 (only the SET of external addresses written is compared, see run())


def compare_case(eh, vh: Vh, regs, mem, n: int = 1, hidden=None, addr_only: bool = False) -> Dict[str, Any]:
    p = eh.run(regs, mem, n, hashed=True, hidden=hidden)
    r = vh.call("exec.run", regs=regs, mem=mem, n=n, hashed=True, **({"hidden": hidden} if hidden else {}))
    ps, rs = p["steps"], r["steps"]
    rec: Dict[str, Any] = {"steps_py": len(ps), "steps_rs": len(rs)}
    k = min(len(ps), len(rs)) - 1
    a, b = ps[k], rs[k]
    # final contents of every location either core wrote (over the whole run)
    touched = set()
    for s in ps:
        touched |= {w[0] for w in s["writes"]}
    for s in rs:
        touched |= {w[0] for w in s["writes"]}
    pm = p["_mem"]
    addrs = sorted(touched)
    rmem = {a_: v for a_, v in vh.call("exec.mem", addrs=addrs)["mem"]} if addrs else {}
    pmem = {a_: (pm.mem[a_] if a_ in pm.mem else None) for a_ in addrs}
    from exec_harness import hash_byte
    memdiff = [[a_, pmem[a_] if pmem[a_] is not None else hash_byte(a_), rmem[a_]] for a_ in addrs
               if (pmem[a_] if pmem[a_] is not None else hash_byte(a_)) != rmem[a_]]
    if addr_only:
        wp = {w[0] for s_ in ps for w in s_["writes"] if w[0] < 0x100000}
        wr = {w[0] for s_ in rs for w in s_["writes"] if w[0] < 0x100000}
        memdiff = [[a_, 1, 0] for a_ in sorted(wp - wr)] + [[a_, 0, 1] for a_ in sorted(wr - wp)]
    rec.update({"py": {"regs": a["regs"], "len": a["len"], "err": 1 if a["err"] else 0, "pw": _norm_power(a["power"])},
                "rs": {"regs": b["regs"], "len": b["len"], "err": 1 if b["err"] else 0, "pw": _norm_power(b["power"])},
                "memdiff": memdiff[:8], "nwrites": len(addrs), "py_err": a["err"] or "", "rs_err": b["err"] or "",
                # did the instruction store into one of the addressing pointer cells BP / PX / PY of the internal memory?
                "ptrwrite": int(any(x in (0x1000EC, 0x1000ED, 0x1000EE) for x in addrs))})
    return rec


def _job(arg):
    shard_id, items, seed = arg
    sys.path.insert(0, str(vlib.VERIF / "harness" / "py"))
    vlib.setup_repo_imports()
    import exec_harness as eh
    import isa_enum as en
    vh = Vh()
    recs = []
    try:
        for (rid, enc, st_seed) in items:
            rnd = random.Random(abs(st_seed))
            if st_seed >= BLOCK:
                from checks import c04
                st = c04.make_state(en, enc, st_seed - BLOCK, "block")
            else:
                st = en.state_for(enc, rnd)
            if st_seed < 0:
                st["regs"]["F"] |= 0xA4          # bits 2-7 of F set (they can get there through POPU F / POPS F / RETI)
            regs, mem = en.build_case(enc, st)
            # every other state is set up with the flags written once more one by one (FC, FZ) after F: the same architectural
            # state reached through the flag aliases of either register file
            rec = compare_case(eh, vh, regs, mem, hidden=({"flagwise": True} if rid % 2 == 1 else None), addr_only=st_seed >= BLOCK)
            rec.update({"id": rid, "b": list(enc) + [0] * (8 - len(enc)), "n": len(enc), "seed": st_seed,
                        "walk": [int(st["regs"].get("I", 0)) & 0xFFFF, int(st["imem"].get(0xEC, 0)), int(st["imem"].get(0xED, 0)), int(st["imem"].get(0xEE, 0))]})
            recs.append(rec)
    finally:
        vh.close()
    d = vlib.scratch("C06")
    tf = d / f"par-{shard_id}.ndjson"
    vlib.write_ndjson(tf, [{k: v for k, v in r.items() if k not in ("py_err", "rs_err")} for r in recs])
    res = run_tlc(SD, "JudgeParity", "JudgeParity.cfg", workers=1, env={"TRACE_FILE": str(tf)}, tag=f"C06-judge-{shard_id}", jvm=["-Xss128m"], heap="3g", timeout=3000)
    verdict = None
    for v in res.printed():
        if isinstance(v, tuple) and v and v[0] == "JUDGE":
            verdict = v
    if verdict is None:
        raise MachineryError(f"JudgeParity did not complete (shard {shard_id}):\n{res.out[-2000:]}")
    tf.unlink()
    byid = {r["id"]: r for r in recs}
    bad = [(str(x[1]), byid[int(x[0])]) for x in verdict[2]]
    drift = [(str(x[1]), byid[int(x[0])]["b"]) for x in list(verdict[3])[:30]]
    return len(recs), bad[:3000], len(bad), drift, len(verdict[3])


PRE_SET = {0x21, 0x22, 0x23, 0x24, 0x25, 0x26, 0x27, 0x30, 0x31, 0x32, 0x33, 0x34, 0x35, 0x36, 0x37}


def _abs_hi(b, k, op):
    """upper nibble of the third byte of an absolute [lmn] operand (ignored address bits), or 0"""
    if 0x88 <= op <= 0x8F or 0xA8 <= op <= 0xAF or 0xD8 <= op <= 0xDB or op in (0x62, 0x66, 0x6A, 0x72, 0x7A):
        return b[k + 3] & 0xF0
    if 0xD0 <= op <= 0xD3:
        return b[k + 4] & 0xF0
    return 0


def _shape(clause: str, rec) -> str:
    b = rec["b"]
    k = 1 if b[0] in PRE_SET else 0
    op = b[k]
    mode = f":m{b[k + 1] >> 4:X}" if op in (0xE3, 0xEB) else ""          # register-indirect block moves: which addressing form
    if op in (0x10, 0xC0, 0xC1, 0xC2, 0xDB):
        mode = ":pre" if k == 1 else ":nopre"                              # (the recorded finding concerns the prefixed forms only)
    if op in (0xC0, 0xC1, 0xC2) and rec.get("ptrwrite"):
        mode += ":ptrwrite"          # an exchange that overwrites BP / PX / PY while the other operand is addressed through them
    # block moves between two internal-memory operands: can the two ranges overlap under ANY addressing calculation of the operand
    # bytes?  (the recorded finding - Rust writes the first destination byte once more at the end - only shows when they do)
    if op in (0xCB, 0xCF) and rec.get("walk"):
        i_, bp, px, py = rec["walk"]
        span = max(1, i_ or 1)
        def cands(n):
            return {n & 0xFF, (bp + n) & 0xFF, (px + n) & 0xFF, (py + n) & 0xFF, (bp + px) & 0xFF, (bp + py) & 0xFF}
        if any(min((a - c) & 0xFF, (c - a) & 0xFF) < span for a in cands(b[k + 1]) for c in cands(b[k + 2])):
            mode += ":overlap"
    # instructions that walk an internal-memory operand downwards (DSRL: upwards): can the walk pass the end of the internal memory
    # under ANY addressing calculation of its operand bytes?  The recorded finding is about exactly that situation (tag edge).
    if op in (0xC4, 0xC5, 0xD4, 0xD5, 0xCF, 0xEC, 0xFC) and rec.get("walk"):
        i_, bp, px, py = rec["walk"]
        span = max(0, (i_ or 1) - 1)
        cands = set()
        for n in (b[k + 1], b[k + 2]):
            cands |= {n & 0xFF, (bp + n) & 0xFF, (px + n) & 0xFF, (py + n) & 0xFF}
        cands |= {(bp + px) & 0xFF, (bp + py) & 0xFF}
        if any((c + span > 0xFF) if op == 0xFC else (c - span < 0) for c in cands):
            mode += ":edge"
    if op in (0x56, 0x5E, 0xF3, 0xFB, 0xC3) and rec.get("walk"):
        mode += ":i1" if rec["walk"][0] == 1 else ":iN"       # counted instructions: a single iteration, or more
    return f"op{op:02X}" + mode + (":absbits" if _abs_hi(b, k, op) else "") + (":fhigh" if rec.get("seed", 0) < 0 else "") + (":block" if rec.get("seed", 0) >= BLOCK else "")


def programs(cr: CheckRun, nprog: int, nsteps: int) -> None:
    """Seeded random straight-line / looping programs in lockstep (state compared after the whole run and at the first divergence)."""
    sys.path.insert(0, str(vlib.VERIF / "harness" / "py"))
    import exec_harness as eh
    import isa_enum as en
    rnd = random.Random(cr.seed + 6)
    # programs are built from opcodes without a recorded divergence (known_findings.json) and without control transfers
    # through the stack, so that the two cores are expected to stay in lockstep for the whole run
    skip = {0xDE, 0xDF, 0xFF, 0xEF, 0xFE, 0x01, 0x06, 0x07, 0x20, 0xBF, 0x04, 0x05, 0x02, 0x03, 0x10, 0x11, 0x3E, 0x5F,
            0x56, 0x5E, 0xF3, 0xFB, 0xC3, 0xE3, 0xEB, 0xC0, 0xC1, 0xC2, 0xDB, 0xB4, 0xB5, 0xB6, 0xC4, 0xC5, 0xD4, 0xD5, 0xCF, 0xEC, 0xFC,
            0x12, 0x13, 0x14, 0x15, 0x16, 0x17, 0x18, 0x19, 0x1A, 0x1B, 0x1C, 0x1D, 0x1E, 0x1F}
    def clean(e):      # recorded divergence: absolute operands with stray upper address bits
        b = list(e) + [0] * 8
        k = 1 if b[0] in PRE_SET else 0
        return not _abs_hi(b, k, b[k])
    encs = [e for e in en.valid_structures("quick", cr.seed) if en.opcode_of(e) not in skip and clean(e)]
    vh = Vh()
    done = 0
    try:
        for k in range(nprog):
            st = en.random_state(rnd)
            st["regs"]["I"] = rnd.choice([1, 2, 3, 4])
            code = b""
            body = [rnd.choice(encs) for _ in range(rnd.randint(4, 14))]
            for e in body:
                if en.opcode_of(e) in en.COUNTED_OPS:
                    code += bytes([0x0B, rnd.choice([1, 2, 3]), 0x00])     # MV I, n : a counted instruction always gets a block length >= 1
                code += e
            back = len(code) + 2
            if back < 0x7F:
                code += bytes([0x13, back])      # JR -back : loop
            regs, mem = en.build_case(code, st)
            rec = compare_case(eh, vh, regs, mem, n=nsteps)
            done += 1
            same = _same(rec) and rec["steps_py"] == rec["steps_rs"]
            if not same:
                # locate the first diverging instruction
                first = None
                for n in range(1, nsteps + 1):
                    r1 = compare_case(eh, vh, regs, mem, n=n)
                    if not _same(r1):
                        first = n
                        break
                cr.violation("ProgramLockstep", f"program diverges at instruction {first}: py={rec['py']} rs={rec['rs']} memdiff={rec['memdiff']}",
                             {"kind": "program", "regs": regs, "mem": mem, "n": first or nsteps})
            if k == 0:
                cr.add_sample({"program_bytes": code.hex(), "steps": nsteps})
    finally:
        vh.close()
    cr.cov["programs"] = cr.cov.get("programs", 0) + done


def c04_overlaps(seed: int) -> List[bytes]:
    rnd = random.Random(seed + 91)
    out = []
    for op in (0xC0, 0xC1, 0xC2, 0xC8, 0xC9, 0xCA, 0xCB, 0xCF, 0xC3):       # EX EXW EXP MV MVW MVP MVL MVLD EXL (m),(n)
        for _ in range(10):
            m = rnd.randrange(0x08, 0xD0)
            n = (m + rnd.choice([-2, -1, 1, 2])) & 0xFF
            out.append(bytes([op, m, n]))
    return out


def call_programs(cr: CheckRun, nprog: int) -> None:
    """Structured call / return programs in lockstep: near and far calls, a far jump between the call and the return (so that
    the return executes in another 64 KiB page than the call), mismatched pairs and returns without a call.  The straight-line
    programs above avoid the stack-based control transfers; single instructions start from a fresh core whose call bookkeeping
    is empty - only a sequence on ONE core shows whether that bookkeeping leaks into the architectural result."""
    sys.path.insert(0, str(vlib.VERIF / "harness" / "py"))
    import exec_harness as eh
    import isa_enum as en
    rnd = random.Random(cr.seed + 66)
    vh = Vh()
    done = 0

    def lo16(a):
        return [a & 0xFF, (a >> 8) & 0xFF]

    def far(a):
        return [a & 0xFF, (a >> 8) & 0xFF, (a >> 16) & 0x0F]

    try:
        for k in range(nprog):
            P, Q = rnd.sample([0x10000, 0x20000, 0x30000, 0x40000, 0x70000, 0x00000], 2)
            a, b, c = (rnd.randrange(0x100, 0x7000) for _ in range(3))
            b = (a + 0x800 + rnd.randrange(0x100)) & 0x7FFF
            c = (b + 0x900 + rnd.randrange(0x100)) & 0x7FFF
            tmpl = ["near-same-page", "near-then-far-jump", "far-call", "far-call-near-return", "near-call-far-return", "return-without-call", "nested"][k % 7]
            code: Dict[int, List[int]] = {}
            if tmpl == "near-same-page":
                code[P + a] = [0x04] + lo16(b) + [0x40, 0x01, 0x00]
                code[P + b] = [0x40, 0x02, 0x06]
                steps = 5
            elif tmpl == "near-then-far-jump":
                code[P + a] = [0x04] + lo16(b) + [0x40, 0x01, 0x00]
                code[P + b] = [0x03] + far(Q + c)
                code[Q + c] = [0x40, 0x03, 0x06]
                code[Q + a + 3] = [0x40, 0x05, 0x00, 0x00]        # where a return that keeps the current page lands
                steps = 6
            elif tmpl == "far-call":
                code[P + a] = [0x05] + far(Q + c) + [0x40, 0x01, 0x00]
                code[Q + c] = [0x40, 0x02, 0x07]
                steps = 5
            elif tmpl == "far-call-near-return":
                code[P + a] = [0x05] + far(Q + c) + [0x00, 0x00]
                code[Q + c] = [0x06]
                code[Q + ((a + 4) & 0xFFFF)] = [0x40, 0x07, 0x00]
                steps = 4
            elif tmpl == "near-call-far-return":
                code[P + a] = [0x04] + lo16(b) + [0x00, 0x00]
                code[P + b] = [0x07]
                steps = 2          # (what lies at the far return's target is arbitrary)
            elif tmpl == "return-without-call":
                code[P + a] = [0x40, 0x01, rnd.choice([0x06, 0x07])]
                steps = 2
            else:
                code[P + a] = [0x04] + lo16(b) + [0x40, 0x01, 0x00]
                code[P + b] = [0x05] + far(Q + c) + [0x06]
                code[Q + c] = [0x04] + lo16((c + 0x40) & 0xFFFF) + [0x07]
                code[Q + ((c + 0x40) & 0xFFFF)] = [0x40, 0x09, 0x06]
                steps = 9
            st = en.random_state(rnd)
            st["regs"]["PC"] = P + a
            st["regs"]["S"] = rnd.choice([0x5F000, 0x5FFFE, 0x60002]) + rnd.randrange(4)
            regs, mem = en.build_case(b"", st)
            for base, bs in code.items():
                mem += [[(base + i) & 0xFFFFF, v] for i, v in enumerate(bs)]
            # a few bytes on the stack for returns without a matching call
            mem += [[(st["regs"]["S"] + i) & 0xFFFFF, rnd.choice([0x10, 0x20, 0x01, 0x33])] for i in range(4)]
            rec = compare_case(eh, vh, regs, mem, n=steps)
            done += 1
            if not (_same(rec) and rec["steps_py"] == rec["steps_rs"]):
                first = None
                for n in range(1, steps + 1):
                    if not _same(compare_case(eh, vh, regs, mem, n=n)):
                        first = n
                        break
                cr.violation(f"CallProgramLockstep:{tmpl}", f"call/return program ({tmpl}) diverges at instruction {first}: py={rec['py']} rs={rec['rs']} memdiff={rec['memdiff']}",
                             {"kind": "program", "regs": regs, "mem": mem, "n": first or steps})
            if k == 0:
                cr.add_sample({"call_program": tmpl, "steps": steps})
    finally:
        vh.close()
    cr.cov["programs"] = cr.cov.get("programs", 0) + done
    cr.cov["call_programs"] = done


def run(cr: CheckRun) -> None:
    sys.path.insert(0, str(vlib.VERIF / "harness" / "py"))
    vlib.setup_repo_imports()
    vlib.build_vh()
    import isa_enum as en
    quick = cr.tier == "quick"
    encs = en.valid_structures(cr.tier, cr.seed)
    rnd = random.Random(cr.seed)
    per = 5 if quick else 16
    items = []
    rid = 0
    for e in encs:
        for _ in range(per):
            rid += 1
            items.append((rid, e, rnd.getrandbits(30)))
        if en.opcode_of(e) in (0x2E, 0x4F, 0xFE):          # instructions that store F: once more with the upper bits of F set
            rid += 1
            items.append((rid, e, -rnd.getrandbits(30) - 1))
    # two internal-memory operands that overlap without being identical (EXW / EXP / MVW / MVP / block forms: the order of the
    # loads and write-backs shows only there)
    for e in c04_overlaps(cr.seed):
        rid += 1
        items.append((rid, e, rnd.getrandbits(30)))
    # block lengths that need both bytes of I, for the block moves with an external operand.  The internal operand then sweeps
    # the whole internal memory, where the cores are known to differ (C04 finding: the Python core leaves the internal memory at
    # its ends), so the VALUES moved are not comparable; registers, flags and the set of external addresses written are.
    from checks import c04
    blk = [e for e in encs if en.opcode_of(e) in c04.BLOCK_OPS]
    rnd2 = random.Random(cr.seed + 5)
    for e in (rnd2.sample(blk, min(len(blk), 64)) if quick else blk):
        rid += 1
        items.append((rid, e, BLOCK + rnd.getrandbits(30)))
    nsh = vlib.NCPU * 2
    results = vlib.pmap(_job, [(i, items[i::nsh], cr.seed) for i in range(nsh)])
    cr.mark("pairs")
    npairs = sum(r[0] for r in results)
    nbad = 0
    for r in results:
        nbad += r[2]
        for clause, rec in r[1]:
            cr.violation(f"{clause}:{_shape(clause, rec)}",
                         f"{clause}: bytes {bytes(rec['b'][:rec['n']]).hex()} py={rec['py']} rs={rec['rs']} memdiff(addr,py,rs)={rec['memdiff']} errs=({rec.get('py_err')!r},{rec.get('rs_err')!r})",
                         {"kind": "pair", "bytes": rec["b"][: rec["n"]], "seed": rec["seed"]})
        for clause, b in r[3][:2]:
            cr.add_drift(f"action=Decode clause={clause} bytes={bytes(b).hex()}")
    programs(cr, 60 if quick else 1500, 40 if quick else 200)
    call_programs(cr, 70 if quick else 2100)
    cr.mark("programs")
    cr.cov["programs"] = cr.cov.get("programs", 0) + npairs
    cr.cov["disagreements_checked"] = nbad
    cr.cov["evaluations"] = npairs
    cr.cov["distinct_nontrivial"] = len(encs)
    cr.cov["rule"] = "distinct valid structural encodings (prefix x opcode x mode byte); each executed on both cores from seeded random/boundary states"
    cr.add_sample({"encoding": encs[len(encs) // 3].hex(), "states_per_encoding": per})
    cr.cov["trusted_base"] = ["vh exec module (sparse recording bus)", "harness/py/exec_harness.py", "binja_test_mocks LLIL evaluator", "TLC"]
    cr.assumptions += [
        "memory is a sparse map with a deterministic hash default on both sides; IMEM lives at 0x100000+offset",
        "low-power state is compared as running / not running (the Python core has a single halted flag; the OFF distinction is C12's finding)",
        "F is compared on its carry and zero bits (the property names those); TEMP registers and call-depth bookkeeping are not architectural", "both cores run on the same sparse bus: 24-bit wrap, 0x100000-0x1001FF internal memory modulo 256, everything else wraps into the 1 MiB external space",
    ]


def replay(path: str) -> int:
    sys.path.insert(0, str(vlib.VERIF / "harness" / "py"))
    vlib.setup_repo_imports()
    vlib.build_vh()
    import exec_harness as eh
    import isa_enum as en
    rec = json.loads(Path(path).read_text())["replay"]
    vh = Vh()
    try:
        if rec["kind"] == "pair":
            if rec["seed"] >= BLOCK:
                from checks import c04
                st = c04.make_state(en, bytes(rec["bytes"]), rec["seed"] - BLOCK, "block")
            else:
                st = en.state_for(bytes(rec["bytes"]), random.Random(abs(rec["seed"])))
            if rec["seed"] < 0:
                st["regs"]["F"] |= 0xA4
            regs, mem = en.build_case(bytes(rec["bytes"]), st)
            r = compare_case(eh, vh, regs, mem, addr_only=rec["seed"] >= BLOCK)
        else:
            r = compare_case(eh, vh, rec["regs"], rec["mem"], n=rec["n"])
    finally:
        vh.close()
    print(json.dumps(r, indent=1))
    return 0 if _same(r) else 1


def selftest(seed: int) -> int:
    return 0
