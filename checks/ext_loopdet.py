"""Growth module (no listed property): the Rust core's execution-loop detector (sc62015-core loop_detector.rs) against
spec/machine/LoopDetect.tla.  TLC model-checks the specification (the implementation-shaped search against the declarative
definition of a loop, soundness, transparency of handlers); `-simulate` behaviours and seeded step streams are recorded on the real
LoopDetector (vh loopdet module) and judged by TraceLoopDetect.tla.  Runs inside C12 (the detector's notion of "mainline" is defined by
the interrupt state of each step); every disagreement is DRIFT - no property sentence talks about this component."""
from __future__ import annotations

import random
from typing import Any, Dict, List

import vlib
from vlib import CheckRun, MachineryError, SPEC, run_tlc, tlc_expect_ok, Vh

SD = SPEC / "machine"
CFGS = {"a": (5, 3), "b": (4, 2)}      # trace configuration -> (max_loop_len, recent_positions_len)


def _drive(shard_id, items, extra):
    max_len, recent = CFGS[extra]
    vh = Vh()
    events, meta = [], {}
    tid = shard_id * 10_000_000
    try:
        for steps in items:
            tid += 1
            meta[tid] = {"steps": steps, "cfg": extra}
            vh.call("loopdet.new", max_len=max_len, recent=recent)
            events.append({"tid": tid, "ev": "Init", "pc": 0, "kind": "", "summary": {"some": 0, "len": 0, "repeats": 0, "start": 0, "end": 0, "pc": 0, "cands": []}})
            for pc, kind in steps:
                s = vh.call("loopdet.step", pc=int(pc), kind=kind)
                events.append({"tid": tid, "ev": "Step", "pc": int(pc), "kind": kind, "summary": s})
    finally:
        vh.close()
    return events, meta


def random_streams(rnd: random.Random, n: int) -> List[List[Any]]:
    """loops of length 1..6 with preambles, handler steps woven in, loops inside loops, a PC that occurs several times per period"""
    out = []
    for _ in range(n):
        body = [rnd.choice([1, 2, 3, 4]) for _ in range(rnd.choice([1, 2, 2, 3, 3, 4, 5, 6]))]
        steps: List[Any] = [[rnd.choice([1, 2, 3, 7]), "main"] for _ in range(rnd.randint(0, 5))]
        for _rep in range(rnd.randint(2, 6)):
            for pc in body:
                steps.append([pc, rnd.choice(["main", "main", "main", "ir"])])
                if rnd.random() < 0.15:
                    steps += [[rnd.choice([8, 9, 1]), "hw"] for _ in range(rnd.randint(1, 3))] + [[9, "reti"]]
        if rnd.random() < 0.5:
            steps += [[rnd.choice(body + [7]), "main"] for _ in range(rnd.randint(1, 6))]
        out.append(steps)
    return out


def run(cr: CheckRun) -> None:
    quick = cr.tier == "quick"
    for name in (("quick", "recent2") if quick else ("thorough", "recent2")):
        cfg = f"MCLoopDetect_{name}.cfg"
        res = run_tlc(SD, "MCLoopDetect", cfg, workers=vlib.NCPU, tag="C12-" + cfg, timeout=3000, heap="8g")
        if res.invariant_violated:
            raise MachineryError(f"LoopDetect model ({name}) violates {res.invariant_violated}")
        tlc_expect_ok(res, cfg)
        cr.add_tlc(cfg, res)
    sims, res = vlib.sim_behaviours(SD, "MCLoopDetect", "MCLoopDetect_sim.cfg", 150 if quick else 2000, 60, cr.seed, "C12ld", var="acts")
    if res.invariant_violated:
        raise MachineryError(f"LoopDetect model violates {res.invariant_violated} (simulate)")
    items = [[[int(dict(a)["pc"]), str(dict(a)["kind"])] for a in v] for v in sims if len(v) >= 3]
    rnd = random.Random(cr.seed + 1212)
    items += random_streams(rnd, 300 if quick else 6000)
    drift = 0
    ntr = nev = 0
    for cfgname in CFGS:
        n, e, bad = vlib.trace_campaign("C12", SD, "TraceLoopDetect", f"TraceLoopDetect_{cfgname}.cfg", items, _drive, f"loop-detector-{cfgname}", extra=cfgname)
        ntr += n
        nev += e
        for b, meta in bad:
            drift += 1
            if drift <= 3:
                cr.add_drift(f"action=record_step clause={b['clause']} cfg={cfgname} line={b['line']} detail={b['detail']}")
    cr.cov["model_drift"] = cr.cov.get("model_drift", 0) + max(0, drift - 3)
    cr.cov["traces_validated_against_impl"] += ntr
    cr.cov["evaluations"] += nev
    cr.cov.setdefault("campaigns", []).append({"name": "loop-detector", "traces": ntr, "events": nev, "rejected_steps": drift})
    cr.mark("loop-detector")
