"""C11 - the memory bus behaves like memory: separate spaces, immutable ROM, little-endian words.

spec/mem/MemoryBus.tla (+ MemoryOps.tla)  the bus over alias classes, model-checked
spec/mem/TraceMemory.tla                  probed alias structure + recorded load/store sequences judged by TLC
"""
from __future__ import annotations

import json
import random
import sys
from pathlib import Path
from typing import Any, Dict, List, Tuple

import vlib
from vlib import CheckRun, MachineryError, SPEC, run_tlc, tlc_expect_ok, Vh

LEVEL = "model_checking"
SD = SPEC / "mem"

# address palette (32-bit): IMEM start/end, just past IMEM, external edges, wrap aliases, mirror window, card window, ROM, overlay edges
PALETTE = [0x100000, 0x100010, 0x1000FD, 0x100100, 0x000000, 0x000100, 0x0FFF00, 0x0FFF10, 0x0FFFFD, 0x0FFFFE,
           0x1100000, 0x10FFF10, 0x1000000, 0x080000, 0x088000, 0x0B8000, 0x0BFFFE, 0x040000, 0x041FFE, 0x04FFFE,
           0x0C0000, 0x020000, 0x02000E, 0x0E0000, 0x80100010, 0x0C0FFE, 0x0C2000]

CONFIGS: Dict[str, Dict[str, Any]] = {
    # name: {impl-independent description}
    "bare": {},
    "rom": {"rom": True},
    "rom+card8k": {"rom": True, "card": 8192},
    "rom+card64k": {"rom": True, "card": 65536},
    "rom+nocard": {"rom": True, "card_present": False},
    # a write-protected card, and slot states reached through a REJECTED operation (a load with an unsupported size raises and
    # must leave the slot as it was: still write-protected / still absent)
    "rom+card8k-ro": {"rom": True, "card": 8192, "card_ro": True},
    "rom+card8k-ro+rejected-load": {"rom": True, "card": 8192, "card_ro": True, "rejected_load": True},
    "rom+nocard+rejected-load": {"rom": True, "card_present": False, "rejected_load": True},
    "rom+ram-overlay": {"rom": True, "ram_overlay": [0x20000, 0x10]},
    "rom+rom-overlay": {"rom": True, "rom_overlay": [0x20008, [1, 2, 3, 4, 5, 6, 7, 8]]},
    "bare+mirror-off": {"mirror": False},
    "rom+readonly": {"rom": True, "readonly": [0x0C0000, 0x0FFFFF]},
    # a read-only range inside the internal RAM with the RAM mirror on: the mirror aliases of its cells lie outside the range
    "mirror+readonly-ram": {"readonly": [0x0B8000, 0x0B80FF]},
    # a ROM image shorter than the fixed ROM window (load_rom of 4 KiB): the rest of the window is unbacked but still read-only
    # (the last 256 bytes of the window get their own ROM overlay, as in every full-ROM configuration, so that the recorded
    #  finding about internal memory living in the top of the external array does not show through the unbacked part)
    "shortrom": {"rom": True, "rom_len": 0x1000, "rom_overlay": [0xFFF00, [(i * 5 + 1) & 0xFF for i in range(256)]]},
    # the whole machines, accessed by executed instructions (classes RsCpuBus / PyCpuBus below): the Rust runtime as the machine
    # harness builds it (plain external array, a three-byte ROM overlay for the interrupt vector), the Python emulator with a full
    # ROM image loaded
    "cpu-rs": {"cpu": "rs", "rom_overlay": [0xFFFFA, [0x00, 0xA0, 0x0B]]},
    "cpu-py": {"cpu": "py", "rom": True},
}


def boundaries(cfg: Dict[str, Any]) -> List[int]:
    """Addresses (24-bit canonical) at which the backing region changes under this configuration."""
    b = [0x100000, 0x100100]
    if cfg.get("rom"):
        b.append(0xC0000)
    if "rom_len" in cfg:
        b.append(0xC0000 + cfg["rom_len"])
    b += [0x40000, 0x50000]
    if "card" in cfg:
        b.append(0x40000 + cfg["card"])
    for key in ("ram_overlay",):
        if key in cfg:
            b += [cfg[key][0], cfg[key][0] + cfg[key][1]]
    if "rom_overlay" in cfg:
        b += [cfg["rom_overlay"][0], cfg["rom_overlay"][0] + len(cfg["rom_overlay"][1])]
    if "readonly" in cfg:
        b += [cfg["readonly"][0], cfg["readonly"][1] + 1]
    return sorted(set(b))


def crosses(cfg: Dict[str, Any], addr: int, w: int) -> str:
    lo = addr & 0xFFFFFF
    for e in boundaries(cfg):
        if lo < e < lo + w:
            return "imem-edge" if e in (0x100000, 0x100100) else "overlay-edge"
    return ""


def declared_readonly(cfg: Dict[str, Any], addr: int) -> int:
    """1 if the configuration itself says this (canonical) address is ROM / read-only"""
    c = addr & 0xFFFFFF
    if c >= 0x100000:
        return 0
    if cfg.get("rom") and 0xC0000 <= c <= 0xFFFFF:
        return 1
    if "rom_overlay" in cfg and cfg["rom_overlay"][0] <= c < cfg["rom_overlay"][0] + len(cfg["rom_overlay"][1]):
        return 1
    if "readonly" in cfg and cfg["readonly"][0] <= c <= cfg["readonly"][1]:
        return 1
    if cfg.get("card_ro") and 0x40000 <= c < 0x40000 + cfg["card"]:
        return 1
    return 0


def cells_of() -> List[int]:
    s = set()
    for a in PALETTE:
        for i in range(3):
            if a + i <= 0xFFFFFFFF:
                s.add(a + i)
    return sorted(s)


def kind(addr: int) -> str:
    c = addr & 0xFFFFFF
    if 0x100000 <= c < 0x100100:
        return "int"
    if c < 0x100000:
        return "ext"
    return "other"


class PyBus:
    impl = "py"

    def __init__(self, cfg):
        from pce500.memory import PCE500Memory
        m = PCE500Memory()
        if cfg.get("rom"):
            rom = bytearray((i * 7 + 3) & 0xFF for i in range(cfg.get("rom_len", 0x40000)))
            m.load_rom(bytes(rom))
        if "card" in cfg:
            if cfg.get("card_ro"):
                m.load_memory_card(bytes((i * 11 + 5) & 0xFF for i in range(cfg["card"])), cfg["card"], writable=False)
            else:
                m.load_memory_card(bytes(cfg["card"]), cfg["card"])
        if cfg.get("card_present") is False:
            m.set_memory_card_present(False)
        if cfg.get("rejected_load"):
            try:
                m.load_memory_card(b"\x55" * 1000, 1000)
                raise MachineryError("load_memory_card accepted an unsupported size")
            except ValueError:
                pass
        if "ram_overlay" in cfg:
            m.add_ram(cfg["ram_overlay"][0], cfg["ram_overlay"][1], "probe_ram")
        if "rom_overlay" in cfg:
            m.add_rom(cfg["rom_overlay"][0], bytes(cfg["rom_overlay"][1]), "probe_rom")
        self.m = m
        self.supported = "mirror" not in cfg and "readonly" not in cfg

    def load(self, addr, w):
        return int(self.m.read_bytes(addr, w))

    def store(self, addr, w, v):
        self.m.write_bytes(w, addr, v)


class RsBus:
    impl = "rs"

    def __init__(self, vh: Vh, cfg):
        c: Dict[str, Any] = {"mirror": cfg.get("mirror", True)}
        roms = []
        if cfg.get("rom"):
            roms.append([0xC0000, [(i * 7 + 3) & 0xFF for i in range(cfg.get("rom_len", 0x40000))]])
        if "rom_overlay" in cfg:
            roms.append(cfg["rom_overlay"])
        if roms:
            c["rom_overlays"] = roms
        if "ram_overlay" in cfg:
            c["ram_overlays"] = [cfg["ram_overlay"]]
        if "card" in cfg:
            c["card"] = {"size": cfg["card"]}
        if cfg.get("card_present") is False:
            c["card"] = {"present": False}
        if "readonly" in cfg:
            c["readonly"] = [cfg["readonly"]]
        vh.call("mem.new", cfg=c)
        self.vh = vh
        # a Rust ROM overlay is exactly as long as its data (no unbacked window to probe); the card write-protect switch and the
        # rejected-load path exist on the Python bus only
        self.supported = "rom_len" not in cfg and "card_ro" not in cfg and "rejected_load" not in cfg

    def load(self, addr, w):
        v = self.vh.call("mem.load", addr=addr, bits=8 * w)["v"]
        return -1 if v is None else int(v)

    def store(self, addr, w, v):
        self.vh.call("mem.store", addr=addr, bits=8 * w, value=v)


# ------------------------------------------------------------------------------------------------ CPU-facing buses
# The same load/store semantics seen from executed instructions: the bus a running CPU gets is not the bus object itself but
# a layer in front of it (CoreRuntime::step's RuntimeBus splits keyboard / LCD / SIO / SSR accesses off and splits word accesses
# around the keyboard registers; PCE500Emulator routes through the lifted IL and PCE500Memory with its perfetto / IMEM hooks).
# Accesses to the 1 MiB external space are performed by MV A / MV BA / MVP (3 bytes through the internal memory) instructions
# poked into RAM and stepped on the WHOLE machines; cells outside the reach of an instruction operand (wrap aliases, the
# internal window) go to the machine's own bus object.
CPU_CODE = 0xB9100
CPU_SCRATCH = 0x40          # internal-memory offset used by the 3-byte moves (BP = 0)


class RsCpuBus:
    impl = "rscpu"

    def __init__(self, vh: Vh, cfg):
        self.vh = vh
        self.supported = cfg.get("cpu") == "rs"
        if self.supported:
            vh.call("rt.new", name="cpu", cfg={"regs": {"PC": CPU_CODE, "S": 0xBFF00, "U": 0xBFE00}, "rom_overlays": [cfg["rom_overlay"]],
                                               "timer": {"enabled": False, "pm": 0, "ps": 0}})
            vh.call("rt.imem", name="cpu", off=0xEC, v=0)

    def _run(self, code, regs=None):
        self.vh.call("rt.configure", name="cpu", cfg={"regs": dict({"PC": CPU_CODE}, **(regs or {}))})
        self.vh.call("rt.poke", name="cpu", addr=CPU_CODE, bytes=code)
        r = self.vh.call("rt.step", name="cpu", n=1)
        if r.get("err"):
            raise MachineryError(f"CPU-facing access failed: {r['err']}")

    def _obj_load(self, addr, w):
        v = self.vh.call("rt.load", name="cpu", addr=addr, bits=8 * w)["value"]
        return -1 if v is None else int(v)

    def load(self, addr, w):
        if not (0 <= addr and addr + w <= 0x100000):
            return self._obj_load(addr, w)
        a3 = [addr & 0xFF, (addr >> 8) & 0xFF, (addr >> 16) & 0x0F]
        if w == 1:
            self._run([0x88] + a3, {"BA": 0})
            return self.vh.call("rt.obs", name="cpu")["ba"] & 0xFF
        if w == 2:
            self._run([0x8A] + a3, {"BA": 0})
            return self.vh.call("rt.obs", name="cpu")["ba"] & 0xFFFF
        self._run([0xD2, CPU_SCRATCH] + a3)
        return self._obj_load(0x100000 + CPU_SCRATCH, 3)

    def store(self, addr, w, v):
        if not (0 <= addr and addr + w <= 0x100000):
            self.vh.call("rt.store", name="cpu", addr=addr, bits=8 * w, value=v)
            return
        a3 = [addr & 0xFF, (addr >> 8) & 0xFF, (addr >> 16) & 0x0F]
        if w == 1:
            self._run([0xA8] + a3, {"BA": v & 0xFF})
        elif w == 2:
            self._run([0xAA] + a3, {"BA": v & 0xFFFF})
        else:
            for i in range(3):
                self.vh.call("rt.imem", name="cpu", off=CPU_SCRATCH + i, v=(v >> (8 * i)) & 0xFF)
            self._run([0xDA] + a3 + [CPU_SCRATCH])


class PyCpuBus:
    impl = "pycpu"

    def __init__(self, cfg):
        self.supported = cfg.get("cpu") == "py"
        if not self.supported:
            return
        sys.path.insert(0, str(vlib.VERIF / "harness" / "py"))
        import machine_harness as mh
        from sc62015.pysc62015.emulator import RegisterName
        self.R = RegisterName
        self.pm = mh.PyMachine()
        self.emu = self.pm.emu
        self.m = self.emu.memory
        self.m.write_byte(0x100000 + 0xEC, 0)

    def _run(self, code, ba=None):
        r = self.emu.cpu.regs
        r.set(self.R.PC, CPU_CODE)
        if ba is not None:
            r.set(self.R.BA, ba)
        for i, b in enumerate(code):
            self.m.write_byte(CPU_CODE + i, b)
        self.emu.step()

    def load(self, addr, w):
        if not (0 <= addr and addr + w <= 0x100000):
            return int(self.m.read_bytes(addr, w))
        a3 = [addr & 0xFF, (addr >> 8) & 0xFF, (addr >> 16) & 0x0F]
        if w == 1:
            self._run([0x88] + a3, 0)
            return self.emu.cpu.regs.get(self.R.BA) & 0xFF
        if w == 2:
            self._run([0x8A] + a3, 0)
            return self.emu.cpu.regs.get(self.R.BA) & 0xFFFF
        self._run([0xD2, CPU_SCRATCH] + a3)
        return int(self.m.read_bytes(0x100000 + CPU_SCRATCH, 3))

    def store(self, addr, w, v):
        if not (0 <= addr and addr + w <= 0x100000):
            self.m.write_bytes(w, addr, v)
            return
        a3 = [addr & 0xFF, (addr >> 8) & 0xFF, (addr >> 16) & 0x0F]
        if w == 1:
            self._run([0xA8] + a3, v & 0xFF)
        elif w == 2:
            self._run([0xAA] + a3, v & 0xFFFF)
        else:
            for i in range(3):
                self.m.write_byte(0x100000 + CPU_SCRATCH + i, (v >> (8 * i)) & 0xFF)
            self._run([0xDA] + a3 + [CPU_SCRATCH])


def documented_canon(cfg: Dict[str, Any], impl: str, addr: int) -> int:
    """the documented canonical form of an address: 24-bit wrap, then (where the configuration has the RAM mirror switched on -
    a Rust-only switch, on by default in these configurations) the 32 KiB mirror of 0x80000-0xBFFFF onto 0xB8000-0xBFFFF.
    Returned in two 12-bit limbs packed as one integer below 2^24, so it stays inside TLC's integers."""
    c = addr & 0xFFFFFF
    mirror = impl.startswith("rs") and cfg.get("mirror", True)       # (CoreRuntime switches it on as well)
    if mirror and 0x80000 <= c <= 0xBFFFF:
        c = 0xB8000 + (c & 0x7FFF)
    return c


def probe(bus, cells: List[int]):
    """W[b] = cells whose byte changes when a marker is stored through cell b (then restored)."""
    W = []
    base = [bus.load(c, 1) for c in cells]
    for bi, b in enumerate(cells):
        old = base[bi]
        marker = (old ^ 0xA5) & 0xFF
        bus.store(b, 1, marker)
        now = [bus.load(c, 1) for c in cells]
        W.append([ci + 1 for ci, (x, y) in enumerate(zip(base, now)) if x != y])
        bus.store(b, 1, old)
        after = [bus.load(c, 1) for c in cells]
        if after != base:
            # restoring did not bring the old contents back: treat the cells that stayed changed as part of the class
            base = after
    return W, base


def trace_for(bus, cfgname: str, cells: List[int], tid: int, rnd: random.Random, length: int, allow_cross: bool = True):
    W, init = probe(bus, cells)
    idx = {a: i + 1 for i, a in enumerate(cells)}
    nxt = [idx.get(a + 1, 0) for a in cells]
    # class representative = least connected cell; initial byte per representative
    ev = [{"tid": tid, "ev": "Init", "impl": bus.impl, "cfg": cfgname, "n": len(cells), "W": W, "kind": [kind(a) for a in cells], "nxt": nxt,
           "ro": [declared_readonly(CONFIGS[cfgname], a) if (a & 0xFFFFFF) == a or True else 0 for a in cells],
           "canon": [documented_canon(CONFIGS[cfgname], bus.impl, a) for a in cells],
           "init": init, "c": 0, "w": 0, "v": 0, "ret": 0}]
    ops = []
    for _ in range(length):
        a = rnd.choice(PALETTE)
        w = rnd.choice([1, 1, 2, 3])
        if not allow_cross and w > 1 and crosses(CONFIGS[cfgname], a, w):
            w = 1      # this trace stays inside one backing region per access
        if rnd.random() < 0.5:
            v = rnd.getrandbits(8 * w)
            bus.store(a, w, v)
            ev.append({"tid": tid, "ev": "S", "c": idx[a], "w": w, "v": v, "ret": 0})
        else:
            r = bus.load(a, w)
            ev.append({"tid": tid, "ev": "L", "c": idx[a], "w": w, "v": 0, "ret": r})
    # final sweep: every cell read back byte-wise (frame condition / ROM immutability)
    for a in cells:
        ev.append({"tid": tid, "ev": "L", "c": idx[a], "w": 1, "v": 0, "ret": bus.load(a, 1)})
    return ev


def drive_shard(shard_id, items, extra):
    vlib.setup_repo_imports()
    vh = Vh()
    cells = cells_of()
    events, meta = [], {}
    tid = shard_id * 10_000_000
    try:
        for (cfgname, seed, length) in items:
            cfg = CONFIGS[cfgname]
            for impl in (("rscpu", "pycpu") if "cpu" in cfg else ("py", "rs")):
                bus = PyBus(cfg) if impl == "py" else RsBus(vh, cfg) if impl == "rs" else RsCpuBus(vh, cfg) if impl == "rscpu" else PyCpuBus(cfg)
                if not bus.supported:
                    continue
                tid += 1
                tr = trace_for(bus, cfgname, cells, tid, random.Random(seed), length, allow_cross=(seed % 2 == 0 and "cpu" not in cfg))
                crossing = [k for k, e in enumerate(tr) if e["ev"] in ("S", "L") and e["w"] > 1 and crosses(cfg, cells[e["c"] - 1], e["w"])]
                meta[tid] = {"impl": impl, "cfg": cfgname, "seed": seed, "length": length, "start_line": len(events) + 1, "crossing": crossing}
                events.extend(tr)
    finally:
        vh.close()
    return events, meta


def _shape(b, meta, cells) -> str:
    d = b["detail"]
    if b["clause"] == "IntExtDisjoint":
        return "imem-stored-in-top-of-external-array" if meta["impl"] == "py" else "general"
    if b["clause"] == "LoadValue":
        c, w = d[0], d[1]
        a = cells[c - 1]
        x = crosses(CONFIGS[meta["cfg"]], a, w) if w > 1 else ""
        if x:
            return f"multi-byte-access-crossing-{x}"
        pos = b["line"] - meta.get("start_line", 1)
        if any(k < pos for k in meta.get("crossing", [])):
            return "after-multi-byte-access-crossing-region-edge"
        return "general"
    return "general"


def run(cr: CheckRun) -> None:
    vlib.setup_repo_imports()
    vlib.build_vh()
    quick = cr.tier == "quick"
    res = run_tlc(SD, "MCMemoryBus", "MCMemoryBus.cfg" if quick else "MCMemoryBus_t.cfg", workers=vlib.NCPU, extra=["-coverage", "1"], tag="C11-MC", timeout=3400)
    if res.invariant_violated:
        raise MachineryError(f"MemoryBus model violates {res.invariant_violated}")
    tlc_expect_ok(res, "MCMemoryBus")
    cr.add_tlc("MCMemoryBus", res)
    cells = cells_of()
    rnd = random.Random(cr.seed)
    items = []
    per = 16 if quick else 120
    for cfgname in CONFIGS:
        for k in range(per if "cpu" not in CONFIGS[cfgname] else max(4, per // 3)):
            items.append((cfgname, rnd.getrandbits(30), 300 if quick else 500))
    ntr, nev, bad = vlib.trace_campaign("C11", SD, "TraceMemory", "TraceMemory.cfg", items, drive_shard, "buses")
    for b, meta in bad:
        shape = _shape(b, meta, cells)
        d = b["detail"]
        if b["clause"] == "LoadValue":
            desc = f"{meta['impl']} bus ({meta['cfg']}): load of {d[1]} byte(s) at {cells[d[0]-1]:#x} returned {d[2]:#x}, memory semantics over the probed alias classes gives {d[3]:#x}"
        else:
            desc = f"{meta['impl']} bus ({meta['cfg']}): {b['clause']} - storing through {cells[d[0]-1]:#x} changes {[hex(cells[c-1]) for c in d[1]]}"
        cr.violation(f"{b['clause']}:{meta['impl']}:{shape}", desc, {**meta, "clause": b["clause"], "line": b["line"], "detail": list(d) if not isinstance(d, list) else d})
    cr.cov["traces_validated_against_impl"] += ntr
    cr.cov["evaluations"] += nev
    cr.cov["distinct_nontrivial"] = ntr
    cr.cov["rule"] = "one trace = (implementation, memory configuration, seed): probed alias matrix over %d byte cells + seeded load/store sequence + final read-back of every cell" % len(cells)
    cr.cov["configurations"] = list(CONFIGS)
    cr.add_sample({"palette": [hex(a) for a in PALETTE[:8]], "config": "rom+card8k"})
    # growth beyond the bus objects: how the device loaders place ROM / system images of any length and what they protect
    # (RomLoad.tla), and the memory-mapped internal registers as a state machine (ImemRegs.tla); only the C11 sentences
    # (ROM immutable, aliases canonical, plain internal RAM reads what was written) are verdicts there, the rest is drift
    from checks import ext_devices
    ext_devices.campaign(cr, cr.tier == "quick")
    # growth: the serial adapter behind the USR / RXD / TXD cells as a state machine of its own (spec/mem/Uart.tla; drift only)
    from checks import ext_uart
    ext_uart.run(cr)
    cr.mark("devices (RomLoad, ImemRegs)")
    cr.cov["trusted_base"] = ["vh harness (mem.rs, romload.rs, imemregs.rs)", "Python drivers in checks/c11.py and checks/ext_devices.py", "TLC"]
    cr.assumptions += [
        "the alias structure is probed from the implementation and only its legality is judged (equivalence, internal/external disjoint); the documented structure itself (24-bit wrap, mirror window) is not imposed",
        "device windows (keyboard F0-F2, LCD 0x2000/0xA000) are excluded from the palette except for 0x2000x cells under explicit RAM/ROM overlays; they are covered by C14/C15",
        "object-level buses (PCE500Memory.read_bytes/write_bytes, MemoryImage::load/store); the Python bus has no mirror/readonly-range switches so those configurations run on Rust only",
    ]


def replay(path: str) -> int:
    vlib.setup_repo_imports()
    vlib.build_vh()
    rec = json.loads(Path(path).read_text())["replay"]
    if str(json.loads(Path(path).read_text()).get("key", "")).startswith(("RomLoad:", "ImemRegs:")):
        from checks import ext_devices
        return int(ext_devices.replay(rec))
    ev, _ = drive_shard(0, [(rec["cfg"], rec["seed"], rec["length"])], None)
    bad = vlib.tlc_judge_trace("C11", SD, "TraceMemory", "TraceMemory.cfg", ev, "replay")
    for b in bad:
        print("REJECTED", b["clause"], b["detail"])
    return 1 if bad else 0


def selftest(seed: int) -> int:
    vlib.setup_repo_imports()
    vlib.build_vh()
    vh = Vh()
    try:
        bus = RsBus(vh, CONFIGS["rom"])
        ev = trace_for(bus, "rom", cells_of(), 1, random.Random(5), 60)
    finally:
        vh.close()
    ok = True
    b0 = vlib.tlc_judge_trace("C11", SD, "TraceMemory", "TraceMemory.cfg", ev, "self0")
    bad = json.loads(json.dumps(ev))
    for e in bad:
        if e["ev"] == "L" and e["w"] == 2:
            e["ret"] = ((e["ret"] & 0xFF) << 8) | (e["ret"] >> 8)   # byte-swapped word
            if e["ret"] != ((e["ret"] & 0xFF) << 8 | e["ret"] >> 8):
                break
    b1 = vlib.tlc_judge_trace("C11", SD, "TraceMemory", "TraceMemory.cfg", bad, "self1")
    if len(b1) <= len(b0):
        print("selftest: byte-swapped load accepted"); ok = False
    print("selftest C11:", "ok" if ok else "FAILED", "(baseline rejected steps:", len(b0), ")")
    from checks import ext_uart
    if ext_uart.selftest(seed) != 0:
        ok = False
    return 0 if ok else 2
