"""C03 - the rendered operands name exactly the locations the lifted IL touches.

spec/isa/SC62015Denote.tla  Denote(mnemonic, operand ASTs parsed from the RENDERED token stream, state) = data reads,
                            writes, address-forming reads, registers that may change, under the documented addressing rules
spec/isa/JudgeDenote.tla    TLC compares the denotation with the accesses recorded through the Memory callbacks while
                            Emulator.execute_instruction runs, and the register deltas

code -> spec: every documented structural encoding (all 15 prefixes in the thorough tier) x seeded states with BP, PX, PY pairwise
distinct and non-zero (wrapping values included), pointer registers at boundary values, I in 1..8, pointer cells in internal memory.
"""
from __future__ import annotations

import json
import random
import sys
from pathlib import Path
from typing import Any, Dict, List

import vlib
from vlib import CheckRun, MachineryError, SPEC, run_tlc
from checks import c04

LEVEL = "model_checking"
SD = SPEC / "isa"


def observe(eh, en, ta, rid: int, enc: bytes, st_seed: int, variant: str = "") -> Dict[str, Any]:
    from sc62015.pysc62015.instr import decode, OPCODES
    st = c04.make_state(en, enc, st_seed, variant)
    regs, mem = en.build_case(enc, st)
    ins = decode(enc + bytes(6), regs["PC"], OPCODES)
    text = "".join(str(t) for t in ins.render())
    mn, ops = ta.parse_tokens(ins.render())
    p = eh.run(regs, mem, 1, hashed=True)
    s = p["steps"][0]
    return {"id": rid, "b": list(enc) + [0] * (8 - len(enc)), "n": len(enc), "mn": mn, "ops": ops, "regs": regs, "mem": mem,
            "rd": sorted({a for a, _ in s["reads"]}), "wr": sorted({a for a, _ in s["writes"]}), "post": s["regs"],
            "err": 1 if s["err"] else 0, "seed": st_seed, "variant": variant, "text": text, "errtext": s["err"] or ""}


def judge(shard_id: int, recs: List[Dict[str, Any]]):
    d = vlib.scratch("C03")
    tf = d / f"den-{shard_id}.ndjson"
    vlib.write_ndjson(tf, [{k: v for k, v in r.items() if k not in ("errtext", "seed", "variant", "text")} for r in recs])
    res = run_tlc(SD, "JudgeDenote", "JudgeDenote.cfg", workers=1, env={"TRACE_FILE": str(tf)}, tag=f"C03-{shard_id}", jvm=["-Xss128m"], heap="3g", timeout=3000)
    verdict = None
    for v in res.printed():
        if isinstance(v, tuple) and v and v[0] == "JUDGE":
            verdict = v
    if verdict is None:
        raise MachineryError(f"JudgeDenote did not complete (shard {shard_id}):\n{res.out[-2000:]}")
    tf.unlink()
    return verdict


def _job(arg):
    shard_id, items = arg
    eh, en = c04._imports()
    import text_ast as ta
    recs = []
    parse_fail = []
    for (rid, enc, seed, variant) in items:
        try:
            recs.append(observe(eh, en, ta, rid, enc, seed, variant))
        except ta.TextParseError as ex:
            parse_fail.append((enc.hex(), str(ex)))
    v = judge(shard_id, recs)
    byid = {r["id"]: r for r in recs}
    bad = []
    for x in v[2]:
        r = byid[int(x[0])]
        bad.append((str(x[1]), c04.tags(r, "+".join(str(t) for t in x[3])), c04._fmt(x[2]), {"kind": "exec", "bytes": r["b"][: r["n"]], "seed": r["seed"], "variant": r["variant"]}, r["text"], r["errtext"]))
    skipped: Dict[str, int] = {}
    for x in v[3]:
        skipped[str(x[1])] = skipped.get(str(x[1]), 0) + 1
    return len(recs), bad[:4000], len(bad), skipped, parse_fail[:5], len(parse_fail)


def run(cr: CheckRun) -> None:
    eh, en = c04._imports()
    quick = cr.tier == "quick"
    # on the model: over the complete structural space of encodings the text denotation and the semantics agree with each other
    res = run_tlc(SD, "MCSemSpace", "MCSemSpace_quick.cfg" if quick else "MCSemSpace.cfg", workers=vlib.NCPU, tag="C03-semspace", timeout=3400, heap="8g")
    if res.invariant_violated or "Error:" in res.out:
        raise MachineryError("MCSemSpace (DenoteCoversExec / ResolveTotal) failed on the specification itself:\n" + res.out[-2500:])
    cr.add_tlc("MCSemSpace (ResolveTotal, DenoteCoversExec, LengthIsStatic, CanonOfTruncation)", res)
    cr.mark("model")
    encs = en.valid_structures(cr.tier, cr.seed)
    rnd = random.Random(cr.seed + 3)
    items = []
    rid = 0
    per = 2 if quick else 8
    for e in encs:
        for k in range(per):
            rid += 1
            items.append((rid, e, rnd.getrandbits(30), "" if k % 2 == 0 else "long"))
    for e in c04.overlap_encodings(cr.seed):
        rid += 1
        items.append((rid, e, rnd.getrandbits(30), "long"))
    # block lengths that need both bytes of I (what the text "MVL (n),[X++]" denotes then is I bytes, not I mod 256)
    blk = [e for e in encs if en.opcode_of(e) in c04.BLOCK_OPS]
    rnd2 = random.Random(cr.seed + 5)
    for e in (rnd2.sample(blk, min(len(blk), 32)) if quick else blk[::3]):
        rid += 1
        items.append((rid, e, rnd.getrandbits(30), "block"))
    # block lengths above 32768 (destination external, so that the instruction does not overwrite its own addressing registers)
    hug = [e for e in blk if e[0] not in c04.PRE_SET and en.opcode_of(e) in (0xEB, 0xDB)]
    for e in rnd2.sample(hug, min(len(hug), 2 if quick else 8)):
        rid += 1
        items.append((rid, e, rnd.getrandbits(30), "huge"))
    nsh = vlib.NCPU * 2
    results = vlib.pmap(_job, [(i, items[i::nsh]) for i in range(nsh)])
    cr.mark("executions")
    nexec = sum(r[0] for r in results)
    skipped: Dict[str, int] = {}
    for r in results:
        for k, v in r[3].items():
            skipped[k] = skipped.get(k, 0) + v
        for clause, tg, detail, rep, text, err in r[1]:
            cr.violation(f"{clause}:{tg}", f"{clause} (address/register {detail}): '{text}' = bytes {bytes(rep['bytes']).hex()}, state seed {rep['seed']}/{rep['variant'] or 'base'} {err}", rep)
        for h, ex in r[4]:
            cr.violation("TextParses", f"rendered text of {h} is not in the operand grammar: {ex}", {"kind": "parse", "bytes": list(bytes.fromhex(h))})
    cr.cov["programs"] = nexec
    cr.cov["traces_validated_against_impl"] = nexec          # one-step executions of the real code judged against the specification
    cr.cov["evaluations"] = nexec
    cr.cov["distinct_nontrivial"] = len(encs)
    cr.cov["skipped_unspecified"] = skipped.get("unspec", 0)
    cr.cov["rule"] = "distinct documented structural encodings (prefix x opcode x mode byte), each executed from seeded states; recorded accesses compared with the denotation of the rendered text"
    cr.add_sample({"encoding": encs[len(encs) // 2].hex(), "states_per_encoding": per})
    cr.cov["trusted_base"] = ["harness/py/exec_harness.py (recording memory)", "harness/py/text_ast.py (token stream -> operand AST)", "binja_test_mocks LLIL evaluator", "TLC"]
    cr.assumptions += [
        "reads inside the 10 bytes starting at PC are the instruction's own bytes / decoder look-ahead and are neither required nor forbidden",
        "register reads cannot be observed; register writes are observed as value changes (a write of an equal value is invisible)",
        "states the README does not define are skipped (same Unspecified predicate as C04)",
        "BP/PX/PY and pointer cells read to form an address are 'address reads', not data; they must be read when the text uses them and may not be read otherwise",
    ]


def replay(path: str) -> int:
    eh, en = c04._imports()
    import text_ast as ta
    rec = json.loads(Path(path).read_text())["replay"]
    if rec["kind"] != "exec":
        return 1
    r = observe(eh, en, ta, 1, bytes(rec["bytes"]), rec["seed"], rec.get("variant", ""))
    v = judge(999, [r])
    print(r["text"], json.dumps({k: r[k] for k in ("mn", "ops", "rd", "wr")}))
    print("verdict", v[2], v[3])
    return 1 if v[2] else 0


def selftest(seed: int) -> int:
    eh, en = c04._imports()
    import text_ast as ta
    r = observe(eh, en, ta, 1, bytes([0x30, 0xA0, 0x12]), 5, "")
    ok = not judge(997, [r])[2]
    r["ops"][0]["mode"] = "BP_N"           # pretend the text said (BP+12)
    bad = bool(judge(996, [r])[2])
    print("selftest", ok, bad)
    return 0 if ok and bad else 1
